"""Which simulation arms decide which property (DESIGN.md section 5).

An arm = (profile of the planner, batch A fault-free control / batch B fault-injecting, build flavour, weight).
"""

def arm(profile, faults, flavour="asan", weight=1, **opts):
    d = {"profile": profile, "faults": faults, "flavour": flavour, "weight": weight}
    o = {k: str(v) for k, v in opts.items() if k not in ("leakcheck",)}
    if o:
        d["opts"] = o
    if opts.get("leakcheck"):
        d["leakcheck"] = True
    if flavour == "asan0":
        # GMP on malloc under ASan is several times slower; the top rungs of the precision ladder (minutes per solve there) run into
        # the simulated time limit instead.  The asan arms walk the whole ladder.
        d.setdefault("opts", {})["knob.ladder.cut"] = "1458"
    return d

COMMON_ASSUME = [
    "sampling: seeded search over plans, not enumeration; a clean batch is evidence, not proof",
    "oracles are the harness's own exact rational model, certificate checkers and reference simplex (sim/model.cpp)",
    "sanitizer builds (clang 14 ASan+UBSan without pointer-overflow) stand in for the shipped optimisation level",
]

PROPS = {
    "C01": {
        "arms": [arm("solve", 1, weight=5), arm("solve", 0, weight=2), arm("hist", 1, weight=2), arm("partial", 0, weight=1), arm("resolve", 0, weight=1), arm("config", 1, "asan0", weight=1)],
        "rule": "one run = one plan (LP + configuration + solves, float-stage/interruption faults in batch B); non-trivial = at least one OPTIMAL verdict whose out-parameters or accessor vectors were certificate-checked against the model; distinct = distinct plan hashes",
        "assumptions": COMMON_ASSUME,
    },
    "C02": {
        "arms": [arm("solve", 1, weight=5), arm("solve", 0, weight=2), arm("hist", 1, weight=1), arm("config", 1, "asan0", weight=1)],
        "rule": "as C01 with LP families biased to infeasible and barely infeasible problems; non-trivial = at least one INFEASIBLE verdict whose multiplier vector was checked as an exact Farkas certificate; distinct = distinct plan hashes",
        "assumptions": COMMON_ASSUME,
    },
    "C03": {
        "arms": [arm("solve", 1, weight=5), arm("solve", 0, weight=3), arm("hist", 0, weight=2), arm("config", 0, "asan0", weight=1)],
        "rule": "non-trivial = at least one QSexact_solver call under default limits whose result was compared with the self-certifying reference simplex (LPs up to 10x10), fault-free (batch A) or with recoverable float-stage faults confined to stages strictly before the last executed one (batch B); distinct = distinct plan hashes",
        "assumptions": COMMON_ASSUME + ["ground truth limited to LPs the dense reference simplex handles (<= 10 rows, <= 10 columns)"],
    },
    "C04": {
        "arms": [arm("config", 0, weight=3), arm("config", 1, weight=3), arm("partial", 0, weight=2), arm("partial", 1, weight=1), arm("config", 0, "asan0", weight=1), arm("hist", 1, weight=1)],
        "rule": "one run = one LP driven by 3-6 interleaved clients in different configurations; non-trivial = at least two configurations reached a definitive status that was compared (with each other and with the reference solver); distinct = distinct plan hashes",
        "assumptions": COMMON_ASSUME,
    },
    "C05": {
        "arms": [arm("hist", 1, weight=3), arm("hist", 0, weight=2), arm("resolve", 0, weight=2), arm("resolve", 1, weight=1), arm("hist", 1, "asan0", weight=1)],
        "rule": "one run = a history of edits, solves (some cut short), basis loads and copies; non-trivial = at least one definitive solve of an object with history that was compared with a freshly built copy of the model; distinct = distinct plan hashes",
        "assumptions": COMMON_ASSUME,
    },
    "C06": {
        "arms": [arm("hist", 0, weight=4), arm("hist", 1, weight=3), arm("hist", 0, "asan0", weight=1), arm("hist", 0, weight=1, long=1), arm("grow", 0, weight=1)],
        "rule": "after every operation the object is dumped through the query API (three rotating sets of getters) and compared with the reference model; non-trivial = at least one successful edit followed by a full dump comparison; distinct = distinct plan hashes",
        "assumptions": COMMON_ASSUME + ["duplicate indices inside one row/column list and explicit zero coefficients are not generated (unspecified behaviour)"],
    },
    "C07": {
        "arms": [arm("invalid", 0, weight=4), arm("invalid", 1, weight=3), arm("invalid", 0, "asan0", weight=1)],
        "rule": "histories in which operations are replaced by invalid-argument twins on objects in every lifecycle state; non-trivial = at least one invalid call on a non-empty object with before/after snapshots compared; distinct = distinct plan hashes",
        "assumptions": COMMON_ASSUME + ["name lookups signalling 'not found' by index -1 with return 0 are counted as rejections"],
    },
    "C12": {
        "arms": [arm("solve", 1, weight=3), arm("solve", 0, weight=2), arm("bases", 0, weight=3), arm("bases", 1, weight=1), arm("hist", 1, weight=2)],
        "rule": "non-trivial = a basis handed back with OPTIMAL was evaluated by exact basis algebra, or a verdict function was compared with the exact basic solution of a caller-supplied non-singular basis; distinct = distinct plan hashes",
        "assumptions": COMMON_ASSUME + ["verdicts on caller supplied bases are sampling of a pure function (labelled so in DESIGN.md)"],
    },
    "C16": {
        "arms": [arm("copy", 1, weight=4), arm("copy", 0, weight=3), arm("solve", 1, weight=2), arm("copy", 1, "asan0", weight=1)],
        "rule": "non-trivial = a copy was compared with its original's model, or an operation on one object was bracketed by snapshots of the related objects, or a reduced-precision copy was compared entry by entry inside a float stage; distinct = distinct plan hashes",
        "assumptions": COMMON_ASSUME,
    },
    "C17": {
        "arms": [arm("hist", 1, weight=3), arm("invalid", 0, weight=1), arm("solve", 1, weight=2), arm("config", 1, weight=1), arm("copy", 1, weight=2), arm("io", 1, weight=2), arm("reader", 1, weight=1), arm("lu", 1, weight=1), arm("cli", 1, weight=1), arm("resolve", 1, weight=2), arm("grow", 1, weight=1), arm("bases", 1, weight=1), arm("partial", 1, weight=1), arm("hist", 1, "asan0", weight=1)],
        "rule": "union of all profiles under ASan+UBSan (crash, hang and sanitizer reports are violations); plus twin runs: a sample of plans is executed in three fresh processes (asan / plain -O2 / asan with GMP on malloc; different fresh-memory fill pattern and environment size) whose transcripts - return codes, statuses, digests of every solution vector, bases, bytes of written files - must be identical; thorough adds valgrind memcheck on the plain binary; non-trivial = a run of >= 3 operations; distinct = distinct plan hashes",
        "assumptions": COMMON_ASSUME + ["reads of uninitialised memory are detected differentially (fill patterns) and by valgrind on a subset; MSan is unusable with uninstrumented libgmp"],
        "twin": True,
        "twin_flavours": ["asan", "asan0", "plain"],
    },
    "C08": {
        "arms": [arm("io", 0, weight=4), arm("io", 1, weight=3), arm("io", 0, weight=1, long=1), arm("io", 0, "asan0", weight=1)],
        "rule": "live objects after arbitrary histories are written in LP format (path plain/.gz/.bz2, caller FILE*, reporter sink) over the simulated disk and read back (path or line reader); non-trivial = at least one undamaged LP file of a problem meeting the precondition was read back and compared by name with the model it was written from; distinct = distinct plan hashes",
        "assumptions": COMMON_ASSUME + ["the round-trip law is asserted only for files on whose path no destructive fault fired"],
    },
    "C09": {
        "arms": [arm("io", 0, weight=4), arm("io", 1, weight=3), arm("io", 0, weight=1, long=1), arm("io", 0, "asan0", weight=1)],
        "rule": "as C08 for MPS output, including LP->MPS->LP and MPS->LP->MPS chains; non-trivial = at least one undamaged MPS file was read back and compared (native RANGES included); distinct = distinct plan hashes",
        "assumptions": COMMON_ASSUME + ["the round-trip law is asserted only for files on whose path no destructive fault fired"],
    },
    "C11": {
        "arms": [arm("reader", 1, weight=5), arm("reader", 1, "asan0", weight=1), arm("io", 1, weight=2)],
        "rule": "files written by the library or by the harness's own LP/MPS renderer are damaged on the simulated disk (torn, bit flips, zeroed tail, dropped/duplicated 512-byte blocks, read errors, mid-token junk, 20-160 kB tokens) and then read (problem readers via path and line reader, basis readers); non-trivial = at least one damaged file was offered to a reader; distinct = distinct plan hashes",
        "assumptions": COMMON_ASSUME + ["a crash or hang inside a read operation in the reader profile is attributed to C11, elsewhere to C17"],
    },
    "C13": {
        "arms": [arm("lu", 1, weight=5), arm("lu", 0, weight=2), arm("lu", 1, weight=1, long=1), arm("hist", 1, weight=2), arm("solve", 0, weight=1)],
        "rule": "component level: histories of factor/update/ftran/btran on mpq_ILLfactor_* with randomised knobs, every solve checked against a dense rational reference; API level: B^-1 and tableau rows multiplied back after solves cut short and resumed; non-trivial = at least one exact multiply-back or solve comparison; distinct = distinct plan hashes",
        "assumptions": COMMON_ASSUME,
    },
    "C14": {
        "arms": [arm("io", 0, weight=4), arm("io", 1, weight=3), arm("io", 0, weight=2, long=1)],
        "rule": "basis files written (own basis or a given one) and read back against the same problem, then arbitrary further operations; non-trivial = a basis write checked for leaving the object untouched, or an undamaged basis file read back and compared; distinct = distinct plan hashes",
        "assumptions": COMMON_ASSUME,
    },
    "C18": {
        # GMP numbers are only visible to LeakSanitizer in the asan0 flavour (slow); everything else the library allocates - bases, name
        # tables, raw LP data, factor work, strings - leaks just as visibly in the fast asan flavour, which therefore gets most of the runs
        "arms": [arm("hist", 1, "asan0", weight=2, leakcheck=1), arm("reader", 1, "asan0", weight=2, leakcheck=1), arm("solve", 1, "asan0", weight=1, leakcheck=1), arm("invalid", 1, "asan0", weight=1, leakcheck=1), arm("io", 1, "asan0", weight=1, leakcheck=1), arm("cli", 0, "asan0", weight=1, leakcheck=1),
                 arm("solve", 1, weight=6, leakcheck=1), arm("hist", 1, weight=3, leakcheck=1), arm("reader", 1, weight=3, leakcheck=1), arm("io", 1, weight=2, leakcheck=1), arm("invalid", 1, weight=2, leakcheck=1), arm("bases", 1, weight=2, leakcheck=1), arm("resolve", 1, weight=1, leakcheck=1), arm("copy", 1, weight=1, leakcheck=1)],
        "rule": "union of profiles in the EG_LPNUM_MEMSLAB=0 flavour (GMP numbers come from malloc); after all documented frees and QSexactClear LeakSanitizer's recoverable check runs; violation class = innermost three library frames of the allocation stack; non-trivial = a run of >= 3 operations; distinct = distinct plan hashes",
        "assumptions": COMMON_ASSUME + ["allocation failure is not injected (the library terminates on it by design)"],
        "slow_unwind": True,
    },
    "C19": {
        "arms": [arm("cli", 0, weight=4), arm("cli", 1, weight=3)],
        "rule": "esolver.c (compiled from /repo with main renamed) runs as a forked child on the simulated disk with generated argv; non-trivial = at least one invocation judged (exit code, solution file parsed and certificate-checked, -b/-B basis); distinct = distinct plan hashes",
        "assumptions": COMMON_ASSUME + ["the problem a readable file denotes is taken to be what the library's reader makes of it (C08/C09 decide that relation)"],
    },
    "C20": {
        "arms": [arm("hist", 1, weight=3), arm("invalid", 1, weight=3), arm("solve", 1, weight=2), arm("config", 1, weight=1), arm("reader", 1, weight=2), arm("io", 1, weight=2), arm("copy", 1, weight=1)],
        "rule": "fd 1 and 2 are captured around every library call with a log handler installed; non-trivial = a run of >= 3 operations (every run exercises the oracle after each call); distinct = distinct plan hashes",
        "assumptions": COMMON_ASSUME,
        "nontrivial_any": True,
    },
}
