"""Which simulation arms decide which property (DESIGN.md section 5).

An arm = (profile of the planner, batch A fault-free control / batch B fault-injecting, build flavour, weight).
"""

def arm(profile, faults, flavour="asan", weight=1, **opts):
    d = {"profile": profile, "faults": faults, "flavour": flavour, "weight": weight}
    o = {k: str(v) for k, v in opts.items() if k not in ("leakcheck",)}
    if o:
        d["opts"] = o
    if opts.get("leakcheck"):
        d["leakcheck"] = True
    return d

COMMON_ASSUME = [
    "sampling: seeded search over plans, not enumeration; a clean batch is evidence, not proof",
    "oracles are the harness's own exact rational model, certificate checkers and reference simplex (sim/model.cpp)",
    "sanitizer builds (clang 14 ASan+UBSan without pointer-overflow) stand in for the shipped optimisation level",
]

PROPS = {
    "C01": {
        "arms": [arm("solve", 1, weight=5), arm("solve", 0, weight=2), arm("hist", 1, weight=2), arm("config", 1, "asan0", weight=1)],
        "rule": "one run = one plan (LP + configuration + solves, float-stage/interruption faults in batch B); non-trivial = at least one OPTIMAL verdict whose out-parameters or accessor vectors were certificate-checked against the model; distinct = distinct plan hashes",
        "assumptions": COMMON_ASSUME,
    },
    "C02": {
        "arms": [arm("solve", 1, weight=5), arm("solve", 0, weight=2), arm("hist", 1, weight=1), arm("config", 1, "asan0", weight=1)],
        "rule": "as C01 with LP families biased to infeasible and barely infeasible problems; non-trivial = at least one INFEASIBLE verdict whose multiplier vector was checked as an exact Farkas certificate; distinct = distinct plan hashes",
        "assumptions": COMMON_ASSUME,
    },
    "C03": {
        "arms": [arm("solve", 1, weight=5), arm("solve", 0, weight=3), arm("config", 0, "asan0", weight=1)],
        "rule": "non-trivial = at least one QSexact_solver call under default limits whose result was compared with the self-certifying reference simplex (LPs up to 10x10), fault-free (batch A) or with recoverable float-stage faults confined to stages strictly before the last executed one (batch B); distinct = distinct plan hashes",
        "assumptions": COMMON_ASSUME + ["ground truth limited to LPs the dense reference simplex handles (<= 10 rows, <= 10 columns)"],
    },
    "C04": {
        "arms": [arm("config", 0, weight=3), arm("config", 1, weight=3), arm("config", 0, "asan0", weight=1), arm("hist", 1, weight=1)],
        "rule": "one run = one LP driven by 3-6 interleaved clients in different configurations; non-trivial = at least two configurations reached a definitive status that was compared (with each other and with the reference solver); distinct = distinct plan hashes",
        "assumptions": COMMON_ASSUME,
    },
    "C05": {
        "arms": [arm("hist", 1, weight=4), arm("hist", 0, weight=3), arm("hist", 1, "asan0", weight=1)],
        "rule": "one run = a history of edits, solves (some cut short), basis loads and copies; non-trivial = at least one definitive solve of an object with history that was compared with a freshly built copy of the model; distinct = distinct plan hashes",
        "assumptions": COMMON_ASSUME,
    },
    "C06": {
        "arms": [arm("hist", 0, weight=4), arm("hist", 1, weight=3), arm("hist", 0, "asan0", weight=1), arm("hist", 0, weight=1, long=1)],
        "rule": "after every operation the object is dumped through the query API (three rotating sets of getters) and compared with the reference model; non-trivial = at least one successful edit followed by a full dump comparison; distinct = distinct plan hashes",
        "assumptions": COMMON_ASSUME + ["duplicate indices inside one row/column list and explicit zero coefficients are not generated (unspecified behaviour)"],
    },
    "C07": {
        "arms": [arm("invalid", 0, weight=4), arm("invalid", 1, weight=3), arm("invalid", 0, "asan0", weight=1)],
        "rule": "histories in which operations are replaced by invalid-argument twins on objects in every lifecycle state; non-trivial = at least one invalid call on a non-empty object with before/after snapshots compared; distinct = distinct plan hashes",
        "assumptions": COMMON_ASSUME + ["name lookups signalling 'not found' by index -1 with return 0 are counted as rejections"],
    },
    "C12": {
        "arms": [arm("solve", 1, weight=4), arm("solve", 0, weight=2), arm("hist", 1, weight=3)],
        "rule": "non-trivial = a basis handed back with OPTIMAL was evaluated by exact basis algebra, or a verdict function was compared with the exact basic solution of a caller-supplied non-singular basis; distinct = distinct plan hashes",
        "assumptions": COMMON_ASSUME + ["verdicts on caller supplied bases are sampling of a pure function (labelled so in DESIGN.md)"],
    },
    "C16": {
        "arms": [arm("copy", 1, weight=4), arm("copy", 0, weight=3), arm("solve", 1, weight=2), arm("copy", 1, "asan0", weight=1)],
        "rule": "non-trivial = a copy was compared with its original's model, or an operation on one object was bracketed by snapshots of the related objects, or a reduced-precision copy was compared entry by entry inside a float stage; distinct = distinct plan hashes",
        "assumptions": COMMON_ASSUME,
    },
    "C17": {
        "arms": [arm("hist", 1, weight=3), arm("invalid", 0, weight=1), arm("solve", 1, weight=2), arm("config", 1, weight=1), arm("copy", 1, weight=2), arm("hist", 1, "asan0", weight=1)],
        "rule": "union of all profiles under ASan+UBSan; non-trivial = a run of >= 3 operations; distinct = distinct plan hashes",
        "assumptions": COMMON_ASSUME,
    },
    "C20": {
        "arms": [arm("hist", 1, weight=3), arm("invalid", 1, weight=3), arm("solve", 1, weight=2), arm("config", 1, weight=1)],
        "rule": "fd 1 and 2 are captured around every library call with a log handler installed; non-trivial = a run of >= 3 operations (every run exercises the oracle after each call); distinct = distinct plan hashes",
        "assumptions": COMMON_ASSUME,
        "nontrivial_any": True,
    },
}
