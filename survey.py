#!/usr/bin/env python3
"""survey.py <profile> <nseeds> [faults] [flavour] [extra k=v ...]: run seeds 1..n, list every violation class of every property."""
import sys, collections, threading
import driver as D
profile, n = sys.argv[1], int(sys.argv[2]); faults = sys.argv[3] if len(sys.argv) > 3 else "1"; fl = sys.argv[4] if len(sys.argv) > 4 else "asan"
extra = dict(a.split("=", 1) for a in sys.argv[5:])
D.build([fl])
findings = D.load_findings()
opts = {"faults": faults}; opts.update(extra)
if "avoid" not in opts:
    av = D.avoid_tokens(findings, "NONE")
    if av: opts["avoid"] = ",".join(sorted(av))
seeds = list(range(1, n + 1)); lock = threading.Lock(); cnt = collections.Counter(); ex = {}; tot = [0]
def loop(k):
    w = D.Worker(fl, 100 + k)
    while True:
        with lock:
            if not seeds: break
            s = seeds.pop()
        cmd = "seed %s %d %s" % (profile, s, " ".join("%s=%s" % kv for kv in sorted(opts.items())))
        res, crash = w.run(cmd, 120)
        if res and res.get("leak"):
            D.read_san_logs(w.logprefix, w.proc.pid)
            r2, c2, _ = D.replay_once(fl, D.emit_plan(fl, profile, s, opts), tag="leakstack", slow=True, timeout=600)
            if r2 is not None and r2.get("leak"): res["leak"] = r2["leak"]
        vs = []
        if crash is not None or (res and (res.get("violations") or res.get("leak") or res.get("harness_error"))):
            text = D.emit_plan(fl, profile, s, opts)
            vs = D.violations_of(res, crash, fl, text, profile)
        with lock:
            tot[0] += 1
            for (p, c, d) in vs:
                cnt[(p, c)] += 1; ex.setdefault((p, c), (s, d))
        if res and res.get("leak"): w.retire()
    w.stop()
ts = [threading.Thread(target=loop, args=(k,)) for k in range(D.JOBS)]
[t.start() for t in ts]; [t.join() for t in ts]
print(tot[0], "runs")
for (p, c), v in sorted(cnt.items(), key=lambda kv: -kv[1]):
    s, d = ex[(p, c)]
    print("%4d %s %s   [seed %d] %s" % (v, p, c, s, d[:160].replace("\n", " | ")))
