#!/usr/bin/env python3
"""Rewrite the generated table of DESIGN.md section 13 (between the seeded-table markers) from seeded/*/meta.json and
seeded/revert_sweep.json."""
import glob, json, os, re
rows = []
for d in sorted(glob.glob("/verif/seeded/*/meta.json")):
    m = json.load(open(d)); name = os.path.basename(os.path.dirname(d)); cr = m.get("checks_run", {})
    det = sorted(p for p, r in cr.items() if r.get("detected")); miss = sorted(p for p, r in cr.items() if not r.get("detected"))
    note = "equivalent since a later repair" if m.get("equivalent_since") else ""
    rows.append((name, m.get("breaks_property", "?"), ", ".join(det) or "-", ", ".join(miss) or "-", note))
n = len(rows); caught_own = sum(1 for r in rows if r[1] in r[2].split(", ")); caught_any = sum(1 for r in rows if r[2] != "-")
eq = sum(1 for r in rows if r[4])
out = ["<!-- seeded-table-begin (tools/gen_design13.py) -->", "",
       "%d stored changes; %d reported by the quick check of the property they were written against, %d by the quick check of some claimed property, %d no longer a defect after a later repair." % (n, caught_own, caught_any, eq), "",
       "| change | written against | reported by | run, not reported by | note |", "|---|---|---|---|---|"]
out += ["| %s | %s | %s | %s | %s |" % r for r in rows]
rs = "/verif/seeded/revert_sweep.json"
if os.path.exists(rs):
    d = json.load(open(rs)); tot = len(d); det = sum(1 for v in d.values() if v.get("detected")); na = sum(1 for v in d.values() if "detected" not in v)
    out += ["", "Undoing repairs (`tools/revert_sweep.py`, newest first): %d `fix:` commits undone one at a time in a scratch tree, %d reported again by the quick check of the finding's property, %d not reported, %d reverts do not apply to the present HEAD any more." % (tot, det, tot - det - na, na), "",
            "| repaired finding | property | undone commit | outcome | classes |", "|---|---|---|---|---|"]
    out += ["| %s | %s | %s | %s | %s |" % (k, v["property"], v["commit"], v["outcome"], ", ".join(v.get("classes", [])[:2])) for k, v in sorted(d.items())]
out += ["", "<!-- seeded-table-end -->"]
p = "/verif/DESIGN.md"; s = open(p).read()
blk = "\n".join(out)
if "<!-- seeded-table-begin" in s:
    s = re.sub(r"<!-- seeded-table-begin.*?<!-- seeded-table-end -->", lambda _: blk, s, flags=re.S)
else:
    s = s.replace("\n---------------------------------------------------------------------------\n\n## Appendix A", "\n" + blk + "\n\n---------------------------------------------------------------------------\n\n## Appendix A", 1)
open(p, "w").write(s)
print("section 13 table: %d changes" % n)
