#!/usr/bin/env python3
"""mkprompt.py <PROP> <worktree> [emphasis]: prompt for a mutation sub-agent (round 3+): property record only, nothing from /verif."""
import json, sys
prop, wt = sys.argv[1], sys.argv[2]
emph = sys.argv[3] if len(sys.argv) > 3 else ""
d = [json.loads(l) for l in open('/verif/properties.jsonl') if json.loads(l)['id'] == prop][0]
mech = "\n".join("    - %s (%s)" % (m['name'], m.get('where', '')) for m in d['anchors'].get('mechanism', []))
print(f"""You are a test engineer doing mutation-style robustness research on an open-source C library. Work ONLY inside the scratch git worktree {wt} (a checkout of jonls/qsopt-ex, an exact rational LP solver; sources in {wt}/qsopt_ex, template files use EGLPNUM_TYPENAME_ prefixes and are instantiated for dbl/mpq/mpf at build time by the Makefile's sed rules; public rational API is mpq_QS*, exact driver QSexact_solver, header QSopt_ex.h; command line program esolver/esolver.c). Do not touch /repo or /verif and do not read anything under /verif. There is no network.

Build and test: `cd {wt} && ./configure >/dev/null && make -j8 check` (about 40 s; 20 TAP tests must pass; the configure script is already there). A program using the library can be built like tests/test_qs.c, e.g. `gcc -g -I{wt}/qsopt_ex -I{wt} demo.c {wt}/.libs/libqsopt_ex.a -lgmp -lz -lbz2 -lm -o demo` (call QSexactStart() first and QSexactClear() last; all mpq_t arguments must be canonical; "infinity" is mpq_ILL_MAXDOUBLE / mpq_ILL_MINDOUBLE).

The library is supposed to satisfy this property:

  [{d['id']}] {d['title']}
  {d['statement']}
  (Quantifier: {d['quantifier']['text']})
  Why the existing unit tests cannot settle it: {d.get('why_tests_cant','')}
  Code the property is anchored in:
{mech}

Your job: produce TWO different, independent source changes to the library (each a small patch, typically 1-15 lines, in {wt}/qsopt_ex or {wt}/esolver) that each BREAK this property while the library still compiles and `make check` still passes all 20 tests. The two changes must sit in two DIFFERENT mechanisms / functions (ideally different files). Prefer realistic bugs a maintainer could plausibly introduce during a refactoring or an optimisation (a dropped invalidation, an off-by-one, a wrong index space - internal column index vs. structural index, row index vs. logical column -, a wrong sign in one branch, a missing check on one path, a stale cache, a skipped free on an error path, a condition that is right for the common case and wrong for a rare one, two sites that each look fine alone). IMPORTANT: each bug must need something specific to manifest - a particular sequence of several API calls, an unusual but valid input shape, an error/early-exit path, a particular option combination, a solve that was cut short by an iteration/time limit and resumed, a particular size threshold, a second object created by copying, a file that was damaged in a particular place, etc. - NOT something that every ordinary use would expose at once (the trivial test suite must keep passing, and a plain "build small LP, solve, read solution" program should still work). {emph}

For each change N in {{1,2}}:
 1. make the change in the worktree, run `make -j8 check`, confirm 20/20 pass;
 2. write a small demonstration program {wt}/_mut/demo{{N}}.c (plain C using the public API or driving esolver via the path in the environment variable ESOLVER (default {wt}/esolver/esolver); exits 0 when the property holds for its scenario and non-zero / crashes when it is violated; for memory-safety or leak properties it may be run under `valgrind -q --error-exitcode=9 --leak-check=full` - say so in the README);
 3. confirm the demo FAILS with the change and PASSES on the unmodified code (`git stash` / `git checkout` the change away, rebuild, re-run);
 4. save the change as {wt}/_mut/patch{{N}}.diff (output of `git diff` for that change only, relative to the unmodified tree, restricted to the hand-edited source files: leave out the generated *_dbl.c/*_mpf.c/*_mpq.c/*.h copies that `make` rewrites) and write {wt}/_mut/README{{N}}.md with: what the bug is, why the test suite does not see it, exactly what is needed for it to manifest, and the exact commands you used to build and run the demo with and without the patch, with their outputs.
Leave the worktree with NO change applied at the end (git checkout -- . ; keep only the untracked _mut directory). Keep going until both patches with verified demos exist; if an idea does not work out (demo passes with the change, or the test suite fails), try another idea. If you notice that the UNMODIFIED library already violates the property somewhere, note the reproducer in {wt}/_mut/SIDE_FINDINGS.md as well. Finish by printing a 10-line summary of both patches.""")
