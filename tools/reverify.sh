#!/bin/bash
# reverify.sh <agent-id, e.g. C07-5>: confirm a stored mutation again against /repo's present HEAD (a later repair can turn a
# stored mutation into an equivalent one); prints the VERIFY line, changes nothing under seeded/
cd /verif
id=$1; prop=${id%%-*}; d=/tmp/rv_$id/_mut
rm -rf /tmp/rv_$id; mkdir -p $d
cp seeded/agent-$id/patch.diff $d/patch1.diff; cp seeded/agent-$id/demo.c $d/demo1.c; cp seeded/agent-$id/*.h $d/ 2>/dev/null
python3 seeded/verify_agent.py $d 1 $prop $id-rv $2 2>&1 | tail -1
rm -rf seeded/agent-$id-rv /tmp/rv_$id
