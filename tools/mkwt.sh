#!/bin/bash
# scratch worktree of /repo's HEAD for a mutation sub-agent, with the untracked autotools files so that ./configure && make check work
# usage: tools/mkwt.sh /tmp/<dir>
set -e
wt=$1
git -C /repo worktree remove --force "$wt" 2>/dev/null || true
rm -rf "$wt"
git -C /repo worktree add -q --detach "$wt" HEAD
for f in configure Makefile.in aclocal.m4 config.h.in compile depcomp install-sh ltmain.sh missing config.guess config.sub test-driver; do
  [ -e /repo/$f ] && cp -p /repo/$f "$wt/$f"
done
cp -rp /repo/m4/. "$wt/m4/" 2>/dev/null || true
mkdir -p "$wt/_mut"
echo "$wt ready"
