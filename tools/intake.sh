#!/bin/bash
# intake.sh <PROP> <ROUND> [valgrind]: confirm both patches of the round-<ROUND> sub-agent that worked in /tmp/r<ROUND>_<PROP>, then run
# the registered quick check of <PROP> against each confirmed patch (sens.py); results in /tmp/sens_out_agent-<id>.txt
# (ids: round 3 -> <PROP>-3/-4, round 4 -> <PROP>-5/-6, ...)
cd /verif
p=$1; rd=$2; vg=$3
exec 8>/tmp/intake.lock; flock 8   # one sensitivity run at a time
for N in 1 2; do
  id=$p-$((N + 2 * (rd - 2)))
  python3 seeded/verify_agent.py /tmp/r${rd}_$p/_mut $N $p $id $vg 2>&1 | tail -2
  if [ -f seeded/agent-$id/patch.diff ]; then
    python3 sens.py agent-$id seeded/agent-$id/patch.diff $p > /tmp/sens_out_agent-$id.txt 2>&1
    head -5 /tmp/sens_out_agent-$id.txt | cut -c1-250
  fi
done
[ -f /tmp/r${rd}_$p/_mut/SIDE_FINDINGS.md ] && mkdir -p notes/side && cp /tmp/r${rd}_$p/_mut/SIDE_FINDINGS.md notes/side/r${rd}_$p.md
exit 0
