#!/usr/bin/env python3
"""revert_sweep.py [max]: for every repaired defect in known_findings.json (newest first) undo its fix: commit in a scratch worktree of
/repo (sens.py revert:<commit>), run the registered quick check of the finding's property against that tree and record whether the
violation is reported again.  A reported violation's shrunk plan becomes regress/<prop>/<finding id>.plan; the outcome of every
attempt goes to seeded/revert_sweep.json.  One run at a time per lock file ($SWEEP_LOCK, default /tmp/sweep.lock)."""
import json, os, re, subprocess, sys, time, glob, shutil
os.chdir("/verif")
mx = int(sys.argv[1]) if len(sys.argv) > 1 else 1000
kf = json.load(open("known_findings.json")); key = [k for k in kf if isinstance(kf[k], list)][0]
outp = "seeded/revert_sweep.json"
done = json.load(open(outp)) if os.path.exists(outp) else {}
log = subprocess.run("git -C /repo log --format=%h", shell=True, capture_output=True, text=True).stdout.split()
order = {h: i for i, h in enumerate(log)}
todo = [e for e in kf[key] if e.get("status") == "fixed" and e.get("commit") and e["id"] not in done]
todo.sort(key=lambda e: min([i for h, i in order.items() if h.startswith(e["commit"][:7]) or e["commit"].startswith(h)] or [10 ** 6]))
keep = "/tmp/sweep_keep"
n = 0
for e in todo:
    if n >= mx:
        break
    n += 1
    name = "rv-" + e["id"]
    env = dict(os.environ, SENS_KEEP=keep, VERIF_JOBS=os.environ.get("VERIF_JOBS", "6"))
    r = subprocess.run(["flock", os.environ.get("SWEEP_LOCK", "/tmp/sweep.lock"), "python3", "sens.py", name, "revert:" + e["commit"], e["property"]], capture_output=True, text=True, env=env)
    txt = r.stdout
    m = re.search(r"^SENS \S+ (\S+) exit=(\d+)", txt, re.M)
    rec = {"commit": e["commit"], "property": e["property"], "when": time.strftime("%Y-%m-%d %H:%M UTC", time.gmtime())}
    if "does not apply" in txt or not m:
        rec["outcome"] = "revert does not apply cleanly to HEAD" if "does not apply" in txt else "no result: " + (txt[-200:] or r.stderr[-200:])
    else:
        rec["exit"] = int(m.group(2)); rec["detected"] = rec["exit"] == 1
        rec["classes"] = sorted(set(re.findall(r"class=(\S+)", txt)))[:6]
        rec["outcome"] = "violation reported again" if rec["detected"] else "not reported by the quick check"
        plans = sorted(glob.glob("%s/%s__%s__*.plan" % (keep, name, e["property"])))
        if rec["detected"] and plans:
            os.makedirs("regress/" + e["property"], exist_ok=True)
            shutil.copy2(plans[0], "regress/%s/%s.plan" % (e["property"], e["id"]))
            rec["regression_plan"] = "regress/%s/%s.plan" % (e["property"], e["id"])
        for p in plans:
            os.unlink(p)
    done = json.load(open(outp)) if os.path.exists(outp) else {}
    done[e["id"]] = rec
    json.dump(done, open(outp, "w"), indent=1, sort_keys=True)
    print(e["id"], rec["outcome"], rec.get("classes", ""), flush=True)
