#!/usr/bin/env python3
"""copy the one-line 'needs to manifest' texts of seeded/round3_needs.json into the meta.json files that exist"""
import json, os
N = json.load(open("/verif/seeded/round3_needs.json"))
for k, v in N.items():
    mp = "/verif/seeded/agent-%s/meta.json" % k
    if os.path.exists(mp):
        m = json.load(open(mp)); m["needs_to_manifest"] = v; m["round"] = 3; json.dump(m, open(mp, "w"), indent=1)
