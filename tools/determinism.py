#!/usr/bin/env python3
"""Determinism proof at scale (DESIGN.md section 9): every plan of a sample is executed (a) by long-lived workers, 16 at a
time, in whatever order they get to it, and (b) alone in a fresh process; the transcript hashes must agree.

  tools/determinism.py [n_per_profile=120] [flavour=asan]
"""
import sys, os, threading, json, time
sys.path.insert(0, "/verif")
import driver as D
n = int(sys.argv[1]) if len(sys.argv) > 1 else 120
fl = sys.argv[2] if len(sys.argv) > 2 else "asan"
D.build([fl])
profiles = ["hist", "invalid", "copy", "solve", "config", "io", "reader", "lu", "cli", "resolve", "grow", "bases", "partial"]
jobs = [(p, s, f) for p in profiles for s in range(1, n + 1) for f in (0, 1)]
res = {}; lock = threading.Lock(); cur = [0]
def loop(idx):
    w = D.Worker(fl, 100 + idx)
    try:
        while True:
            with lock:
                if cur[0] >= len(jobs): return
                j = jobs[cur[0]]; cur[0] += 1
            p, s, f = j
            r, crash = w.run("seed %s %d faults=%d" % (p, s, f), 600)
            with lock: res[j] = r["transcript_hash"] if r else "crash"
    finally:
        w.stop()
t0 = time.time()
ts = [threading.Thread(target=loop, args=(k,)) for k in range(D.JOBS)]
for t in ts: t.start()
for t in ts: t.join()
bad = []; cur[0] = 0
def loop2():
    while True:
        with lock:
            if cur[0] >= len(jobs): return
            j = jobs[cur[0]]; cur[0] += 1
        p, s, f = j
        text = D.emit_plan(fl, p, s, {"faults": str(f)})
        r, crash, _ = D.replay_once(fl, text, tag="det%d" % threading.get_ident(), timeout=900)
        h = r["transcript_hash"] if r else "crash"
        if h != res[j]:
            with lock: bad.append((j, res[j], h))
ts = [threading.Thread(target=loop2) for k in range(max(2, D.JOBS // 2))]
for t in ts: t.start()
for t in ts: t.join()
print("%d plans (%d profiles x %d seeds x faults off/on), flavour %s: %d transcript mismatches between worker and fresh process, %.0f s" % (len(jobs), len(profiles), n, fl, len(bad), time.time() - t0))
for b in bad[:10]: print("  MISMATCH", b)
sys.exit(1 if bad else 0)
