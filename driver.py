#!/usr/bin/env python3
"""Driver of the qsim deterministic simulation: seeded search over plans, replay gate, shrinking, evidence.

  driver.py check <PROP> quick|thorough
  driver.py replay <file.plan>
Exit codes: 0 held (KNOWN-FINDING lines allowed), 1 VIOLATION, 2 harness error.
"""
import json, os, re, select, subprocess, sys, time, threading, queue, hashlib, shutil

ROOT = os.path.dirname(os.path.abspath(__file__))
BUILD = os.environ.get("VERIF_BUILD", os.path.join(ROOT, "build"))
LOGDIR = os.path.join(BUILD, "logs")
OUT = os.environ.get("VERIF_OUT", ROOT)   # where evidence/ and replays/ go (sensitivity runs on scratch trees set this)
JOBS = int(os.environ.get("VERIF_JOBS", "16"))

sys.path.insert(0, ROOT)
from props import PROPS   # property -> arms

MASK64 = (1 << 64) - 1

def splitmix(x):
    x = (x + 0x9E3779B97F4A7C15) & MASK64
    z = x
    z = ((z ^ (z >> 30)) * 0xBF58476D1CE4E5B9) & MASK64
    z = ((z ^ (z >> 27)) * 0x94D049BB133111EB) & MASK64
    return z ^ (z >> 31)

def run_seed(base, prop, i):
    h = int(hashlib.sha256(prop.encode()).hexdigest()[:16], 16)
    return splitmix(splitmix(base ^ h) + i) & ((1 << 62) - 1)

def qsim(flavour):
    return os.path.join(BUILD, flavour, "qsim")

def build(flavours):
    r = subprocess.run([os.path.join(ROOT, "build.sh")] + sorted(flavours), cwd=ROOT)
    if r.returncode != 0:
        print("HARNESS-ERROR: build failed")
        sys.exit(2)

SLOW_UNWIND = [False]   # C18 needs complete allocation stacks through libgmp (no frame pointers there); costs ~5x

def san_env(tag, slow=None):
    os.makedirs(LOGDIR, exist_ok=True)
    env = dict(os.environ)
    lp = os.path.join(LOGDIR, tag)
    unwind = "fast_unwind_on_malloc=0:malloc_context_size=14" if (SLOW_UNWIND[0] if slow is None else slow) else "fast_unwind_on_malloc=1:malloc_context_size=6"
    env["ASAN_OPTIONS"] = "log_path=%s:exitcode=77:detect_leaks=1:leak_check_at_exit=0:allocator_may_return_null=1:handle_sigfpe=1:symbolize=1:%s" % (lp, unwind)
    env["UBSAN_OPTIONS"] = "log_path=%s:print_stacktrace=1:halt_on_error=1:exitcode=77" % lp
    env["LSAN_OPTIONS"] = "log_path=%s:print_suppressions=0" % lp
    env["ASAN_SYMBOLIZER_PATH"] = shutil.which("llvm-symbolizer") or "/usr/bin/llvm-symbolizer-14"
    return env, lp

def read_san_logs(prefix, pid):
    txt = ""
    for suffix in (".%d" % pid,):
        p = prefix + suffix
        if os.path.exists(p):
            try:
                txt += open(p, errors="replace").read()
            except OSError:
                pass
            try:
                os.unlink(p)
            except OSError:
                pass
    return txt

LIBFRAME = re.compile(r"#\d+ 0x[0-9a-f]+ in (\S+) (\S+)")

def lib_frames(stack_text, limit=3):
    """innermost library frames (functions defined under build/gen) of a sanitizer stack"""
    out = []
    for m in LIBFRAME.finditer(stack_text):
        fn, loc = m.group(1), m.group(2)
        if "/gen/" in loc and not fn.startswith("__"):
            out.append(fn)
            if len(out) >= limit:
                break
    return out

def crash_class(san_text, exit_code, opkind):
    kind = "exit%s" % exit_code
    m = re.search(r"ERROR: (?:AddressSanitizer|LeakSanitizer): ([\w-]+)", san_text)
    if m:
        kind = m.group(1)
    elif "runtime error:" in san_text:
        m2 = re.search(r"runtime error: ([^\n]{0,60})", san_text)
        kind = "ubsan:" + re.sub(r"[0-9]+", "#", m2.group(1)).strip().replace(" ", "_")[:40]
    elif exit_code is not None and exit_code < 0:
        kind = "signal%d" % (-exit_code)
    frames = lib_frames(san_text, 1)   # innermost library frame only: deeper frames vary with what an overflow happens to find
    return "crash:%s:%s:%s" % (kind, opkind or "?", "/".join(frames) if frames else "?")

def leak_classes(leak_text):
    """one class per distinct allocation stack: innermost three library frames"""
    classes = {}
    for block in re.split(r"\n(?=(?:Direct|Indirect) leak of)", leak_text):
        if not block.startswith(("Direct leak", "Indirect leak")):
            idx = block.find("Direct leak")
            if idx < 0:
                continue
            block = block[idx:]
        if block.startswith("Indirect"):
            continue
        fr = lib_frames(block, 3)
        if not fr:
            # arrays the harness allocates only to hand them to the library (the basis given to QSexact_solver, whose arrays the
            # library must release when it replaces them) are the library's to free
            if "to_lib_basis" in block:
                classes.setdefault("leak:handed-over:basis-arrays", block[:1500])
                continue
            classes.setdefault("leak:harness", block[:1500])
            continue
        classes.setdefault("leak:" + "/".join(fr), block[:1500])
    return classes


class Worker:
    def __init__(self, flavour, idx):
        self.flavour, self.idx = flavour, idx
        self.proc = None
        self.start()

    def start(self):
        self.env, self.logprefix = san_env("w%s%d" % (self.flavour, self.idx))
        self.proc = subprocess.Popen([qsim(self.flavour), "--worker"], stdin=subprocess.PIPE, stdout=subprocess.PIPE,
                                     stderr=subprocess.DEVNULL, env=self.env, cwd=BUILD)

    def stop(self):
        if self.proc and self.proc.poll() is None:
            try:
                self.proc.stdin.write(b"quit\n"); self.proc.stdin.flush()
                self.proc.wait(timeout=5)
            except Exception:
                self.proc.kill(); self.proc.wait()

    def run(self, cmd, timeout):
        """returns (result dict or None, crash info or None)"""
        if self.proc.poll() is not None:
            self.start()
        try:
            self.proc.stdin.write((cmd + "\n").encode()); self.proc.stdin.flush()
        except BrokenPipeError:
            pass
        fd = self.proc.stdout.fileno()
        deadline = time.time() + timeout
        buf = b""
        while True:
            left = deadline - time.time()
            if left <= 0:
                self.proc.kill(); self.proc.wait()
                pid = self.proc.pid
                read_san_logs(self.logprefix, pid)
                self.start()
                return None, {"kind": "hang", "exit": None, "san": ""}
            r, _, _ = select.select([fd], [], [], min(left, 1.0))
            if r:
                chunk = os.read(fd, 1 << 16)
                if not chunk:
                    self.proc.wait()
                    pid, code = self.proc.pid, self.proc.returncode
                    san = read_san_logs(self.logprefix, pid)
                    self.start()
                    return None, {"kind": "crash", "exit": code, "san": san}
                buf += chunk
                if b"\n" in buf:
                    line = buf.split(b"\n", 1)[0]
                    try:
                        return json.loads(line.decode(errors="replace")), None
                    except ValueError:
                        return None, {"kind": "garbled", "exit": None, "san": line.decode(errors="replace")[:500]}

    def retire(self):
        self.stop(); self.start()


def emit_plan(flavour, profile, seed, opts):
    args = [qsim(flavour), "--emit-plan", profile, str(seed)] + ["%s=%s" % kv for kv in sorted(opts.items())]
    r = subprocess.run(args, stdout=subprocess.PIPE, stderr=subprocess.DEVNULL, cwd=BUILD)
    return r.stdout.decode()

def replay_once(flavour, plan_text, trace=False, timeout=120, tag="replay", slow=None):
    """fresh process; returns (result dict or None, crash info or None, trace lines)"""
    os.makedirs(LOGDIR, exist_ok=True)
    path = os.path.join(LOGDIR, "%s-%d-%d.plan" % (tag, os.getpid(), threading.get_ident()))
    open(path, "w").write(plan_text)
    env, lp = san_env("%s%d_%d" % (tag, os.getpid(), threading.get_ident()), slow)
    args = [qsim(flavour), "--replay", path] + (["--trace"] if trace else [])
    try:
        p = subprocess.Popen(args, stdout=subprocess.PIPE, stderr=subprocess.DEVNULL, env=env, cwd=BUILD)
        try:
            out, _ = p.communicate(timeout=timeout)
        except subprocess.TimeoutExpired:
            p.kill(); out, _ = p.communicate()
            read_san_logs(lp, p.pid)
            return None, {"kind": "hang", "exit": None, "san": ""}, out.decode(errors="replace").split("\n")
        lines = out.decode(errors="replace").split("\n")
        res = None
        for ln in reversed(lines):
            if ln.startswith("{"):
                try:
                    res = json.loads(ln); break
                except ValueError:
                    pass
        san = read_san_logs(lp, p.pid)
        if res is None:
            return None, {"kind": "crash", "exit": p.returncode, "san": san}, lines
        if res.get("leak") and "leak of" not in res["leak"] and san:
            res["leak"] = san
        return res, None, lines
    finally:
        try:
            os.unlink(path)
        except OSError:
            pass


def op_at_crash(trace_lines):
    last = None
    for ln in trace_lines:
        if ln.startswith("T op "):
            last = ln
    if not last:
        return "?", ""
    parts = last.split()
    kind = parts[4] if len(parts) > 4 else "?"
    what = ""
    for t in parts[5:]:
        if t.startswith("what="):
            what = t[5:]
        if t.startswith("how=") and not what:
            what = t[4:]
    inv = "[api.invalid" in last
    return kind + ((":" + what) if what else "") + (":invalid" if inv else ""), last


HANG_CONFIRM_S = int(os.environ.get("VERIF_HANG_CONFIRM_S", "900"))
SLOW_RUNS = [0]

def crash_property(opdesc, plan_profile, plan_text=""):
    """which property owns a crash (DESIGN 5: C07 for invalid-argument ops, C11 for reads of damaged files, C14 for reading back a basis
    file the library wrote in a plan that damages nothing, C17 otherwise)"""
    if ":invalid" in opdesc or opdesc.startswith("qinvalid"):
        return "C07"
    if opdesc.startswith(("read", "rbasis")) and plan_profile in ("reader",):
        return "C11"
    if opdesc.startswith("rbasis") and plan_profile == "io" and not re.search(r"^op \d+ (damage|fbasis) ", plan_text, re.M) and not re.search(r"^f io\.(?!chunk)", plan_text, re.M):
        return "C14"
    if opdesc.startswith("lu"):
        return "C13"   # component-level LU history: neither an exact solve nor a reported singularity
    return "C17"


def violations_of(res, crash, flavour, plan_text, profile):
    """normalise a run outcome into a list of (prop, cls, detail)"""
    out = []
    if crash is not None:
        if crash["kind"] == "garbled":
            return [("HARNESS", "garbled-result", crash["san"])]
        if crash["kind"] == "hang":
            # the watchdog is wall-clock time, which the simulation does not control: a run is only called a hang when a fresh
            # process given HANG_CONFIRM_S (far beyond the slowest finite run seen, a walk up all twelve precision levels
            # under ASan) does not finish either; a run that does finish is judged by its result like any other
            # first 240 s, which tells at which operation the run is stuck; only solves (ladder walks) get the long confirmation
            r2, c2, lines = replay_once(flavour, plan_text, trace=True, tag="classify", timeout=240)
            opdesc, opline = op_at_crash(lines)
            waited = 240
            if r2 is None and c2 is not None and c2["kind"] == "hang" and opdesc.startswith(("solve", "esolver", "verdict", "?")):
                r2, c2, lines = replay_once(flavour, plan_text, trace=True, tag="classify", timeout=HANG_CONFIRM_S)
                opdesc, opline = op_at_crash(lines); waited = HANG_CONFIRM_S
            if r2 is not None:
                SLOW_RUNS[0] += 1
                return violations_of(r2, None, flavour, plan_text, profile)
            if c2 is not None and c2["kind"] != "hang":
                return violations_of(None, c2, flavour, plan_text, profile)
            cls = "hang:" + opdesc
            # termination is promised by C03 (solves) and C11 (readers); no listed property speaks about other calls
            prop = "C03" if opdesc.startswith("solve") else "C11" if opdesc.startswith(("read", "rbasis")) else "NOTE"
            return [(prop, cls, "no result within %d s in a fresh process; last op: %s" % (waited, opline))]
        _, c2, lines = replay_once(flavour, plan_text, trace=True, tag="classify")
        opdesc, opline = op_at_crash(lines)
        san = crash["san"] or (c2["san"] if c2 else "")
        cls = crash_class(san, crash["exit"], opdesc)
        return [(crash_property(opdesc, profile, plan_text), cls, (opline + "\n" + san)[:3000])]
    for v in res.get("violations", []):
        out.append((v["prop"], v["cls"], v["detail"]))
    if res.get("leak"):
        for cls, txt in leak_classes(res["leak"]).items():
            out.append(("HARNESS" if cls == "leak:harness" else "C18", cls, txt))
    if res.get("harness_error"):
        out.append(("HARNESS", "harness-error", res["harness_error"]))
    return out


# ---------------------------------------------------------------------------------------------- shrinking
def plan_units(text):
    """split a plan into header lines, lp lines and op units (op line + its fault lines)"""
    head, lps, ops = [], [], []
    for ln in text.split("\n"):
        if not ln.strip():
            continue
        if ln.startswith("op "):
            ops.append([ln])
        elif ln.startswith("f "):
            if ops:
                ops[-1].append(ln)
        elif ln.startswith(("c ", "r ")):
            lps.append(ln)
        elif ln.startswith(("expect", "trace", "#")):
            continue
        else:
            head.append(ln)
    return head, lps, ops

def join_plan(head, lps, ops):
    lp_decl = [h for h in head if h.startswith("lp ")]
    other = [h for h in head if not h.startswith("lp ")]
    return "\n".join(other + lp_decl + lps + [l for u in ops for l in u]) + "\n"

def reproduces(flavour, text, prop, cls, profile, tag="gate"):
    """does this plan show exactly this (property, class) in a fresh process?"""
    if cls.startswith("nondeterministic:"):
        ok, detail = twin_compare(text)
        return ok is False and twin_class(detail) == cls
    if cls.startswith("valgrind:"):
        txt = valgrind_run(text)
        return bool(txt.strip()) and cls.split(":")[1].replace("_", " ") in txt
    if cls.startswith("hang:"):   # violations_of runs the fresh-process confirmation itself
        return any(p == prop and c == cls for (p, c, _) in violations_of(None, {"kind": "hang", "exit": None, "san": ""}, flavour, text, profile))
    res, crash, _ = replay_once(flavour, text, tag=tag)
    if crash is not None and crash["kind"] == "crash" and not cls.startswith(("crash", "hang")):
        return False
    if res is None and crash is None:
        return False
    return any(p == prop and c == cls for (p, c, _) in violations_of(res, crash, flavour, text, profile))

def shrink(flavour, text, prop, cls, profile, budget=250, log=None):
    """class preserving ddmin over op units, fault lines, lp lines, then number simplification"""
    runs = [0]
    if cls.startswith("hang:"):
        return text   # every probe would cost the full confirmation time
    special = cls.startswith(("nondeterministic:", "valgrind:"))
    if special:
        budget = min(budget, 60)
    def still(t):
        if runs[0] >= budget:
            return False
        runs[0] += 1
        if special:
            return reproduces(flavour, t, prop, cls, profile, tag="shrink")
        res, crash, _ = replay_once(flavour, t, tag="shrink")
        if crash is not None and crash["kind"] == "crash" and not cls.startswith(("crash", "hang")):
            return False
        for (p, c, _) in violations_of(res, crash, flavour, t, profile) if (res is not None or crash is not None) else []:
            if p == prop and c == cls:
                return True
        return False

    head, lps, ops = plan_units(text)

    def ddmin(items, rebuild):
        n = 2
        while len(items) >= 1 and runs[0] < budget:
            chunk = max(1, len(items) // n)
            reduced = False
            i = 0
            while i < len(items) and runs[0] < budget:
                cand = items[:i] + items[i + chunk:]
                if still(rebuild(cand)):
                    items = cand; reduced = True
                    n = max(n - 1, 2)
                else:
                    i += chunk
            if not reduced:
                if chunk == 1:
                    break
                n = min(len(items), n * 2)
        return items

    ops = ddmin(ops, lambda c: join_plan(head, lps, c))
    # drop fault lines one at a time
    for ui in range(len(ops)):
        k = 1
        while k < len(ops[ui]) and runs[0] < budget:
            cand = [list(u) for u in ops]
            del cand[ui][k]
            if still(join_plan(head, lps, cand)):
                ops = cand
            else:
                k += 1
    lps = ddmin(lps, lambda c: join_plan(head, c, ops))
    # drop knobs
    for h in list(head):
        if h.startswith("knob ") and runs[0] < budget:
            cand = [x for x in head if x != h]
            if still(join_plan(cand, lps, ops)):
                head = cand
    # simplify numbers in lp lines
    numre = re.compile(r"(?<![\w.])-?\d+(?:/\d+)?(?![\w.^*])")
    for li in range(len(lps)):
        toks = lps[li].split(" ")
        for ti in range(3, len(toks)):
            if runs[0] >= budget:
                break
            t = toks[ti]
            if ":" in t:
                j, v = t.split(":", 1)
                for simple in ("1", "2"):
                    if v != simple:
                        cand = list(toks); cand[ti] = j + ":" + simple
                        c2 = list(lps); c2[li] = " ".join(cand)
                        if still(join_plan(head, c2, ops)):
                            toks = cand; lps = c2; break
            elif numre.fullmatch(t) and t not in ("0", "1"):
                for simple in ("0", "1"):
                    cand = list(toks); cand[ti] = simple
                    c2 = list(lps); c2[li] = " ".join(cand)
                    if still(join_plan(head, c2, ops)):
                        toks = cand; lps = c2; break
    if log is not None:
        log.append("shrink: %d re-executions" % runs[0])
    return join_plan(head, lps, ops)


# ---------------------------------------------------------------------------------------------- known findings
def load_findings():
    p = os.path.join(ROOT, "known_findings.json")
    if not os.path.exists(p):
        return []
    return json.load(open(p)).get("findings", [])

def finding_for(findings, prop, cls):
    for f in findings:
        if f.get("status") == "fixed":
            continue
        if f["property"] != prop:
            continue
        pat = f["class"]
        if pat == cls or (pat.endswith("*") and cls.startswith(pat[:-1])) or (f.get("regex") and re.fullmatch(f["regex"], cls)):
            return f
    return None

def avoid_tokens(findings, prop):
    toks = set()
    for f in findings:
        if f.get("status") == "fixed":
            continue
        if f["property"] == prop:
            continue
        for t in f.get("avoid", []):
            toks.add(t)
    return toks


# ---------------------------------------------------------------------------------------------- C17 twin runs
TWIN_VARIANTS = [("asan", "71"), ("plain", "203"), ("asan0", "0")]

def with_knob(plan_text, knob, value):
    lines = [l for l in plan_text.split("\n") if not l.startswith("knob %s " % knob)]
    out = []
    done = False
    for l in lines:
        out.append(l)
        if l.startswith("profile ") and not done:
            out.append("knob %s %s" % (knob, value)); done = True
    return "\n".join(out)

def twin_compare(plan_text):
    """run one plan in three fresh processes (different flavour, fill pattern, environment size); returns (ok, detail)"""
    outs = []
    if "\nknob ladder.cut " not in plan_text:
        plan_text = with_knob(plan_text, "ladder.cut", "1458")   # one replica is the slow GMP-on-malloc flavour (props.arm)
    for k, (fl, fill) in enumerate(TWIN_VARIANTS):
        text = with_knob(plan_text, "mem.fill", fill)
        if k == 1:
            os.environ["QSIM_TWIN_PADDING"] = "x" * 3000     # moves the stack and the environment block
        try:
            res, crash, tl = replay_once(fl, text, trace=True, tag="twin%d" % k)
        finally:
            os.environ.pop("QSIM_TWIN_PADDING", None)
        if crash is not None or res is None:
            return None, "variant %s did not finish (%s)" % (fl, crash["kind"] if crash else "?")
        tr = [l[2:] for l in tl if l.startswith("T ")]
        outs.append((fl, res["transcript_hash"], tr))
    base = outs[0]
    for (fl, h, tr) in outs[1:]:
        if h != base[1]:
            for i in range(max(len(tr), len(base[2]))):
                a = base[2][i] if i < len(base[2]) else "<end>"
                b = tr[i] if i < len(tr) else "<end>"
                if a != b:
                    return False, "%s: %s | %s: %s" % (base[0], a[:160], fl, b[:160])
            return False, "transcript hashes differ between %s and %s" % (base[0], fl)
    return True, ""

def twin_class(detail):
    m = re.search(r": +(\w+)", detail)
    return "nondeterministic:" + (m.group(1) if m else "transcript")

def valgrind_run(plan_text):
    """plain binary under valgrind memcheck; returns error text or ''"""
    os.makedirs(LOGDIR, exist_ok=True)
    path = os.path.join(LOGDIR, "vg-%d-%d.plan" % (os.getpid(), threading.get_ident()))
    open(path, "w").write(plan_text)
    log = path + ".log"
    try:
        r = subprocess.run(["valgrind", "-q", "--error-exitcode=9", "--log-file=" + log, qsim("plain"), "--replay", path],
                           stdout=subprocess.DEVNULL, stderr=subprocess.DEVNULL, cwd=BUILD, timeout=900)
        txt = open(log, errors="replace").read() if os.path.exists(log) else ""
        # memcheck errors make the exit code 9 (a signal makes it negative); warnings it prints besides (stack switches, large
        # ranges) are not findings
        return txt if (r.returncode == 9 or r.returncode < 0) else ""
    except subprocess.TimeoutExpired:
        return ""
    finally:
        for f in (path, log):
            try:
                os.unlink(f)
            except OSError:
                pass

# ---------------------------------------------------------------------------------------------- check
# runs per quick check: roughly what 16 workers finish in 25-40 s on the reference sandbox
QUICK_RUNS = {"C01": 800, "C02": 1000, "C03": 1200, "C04": 480, "C05": 2000, "C06": 1200, "C07": 2000, "C08": 1600, "C09": 1400, "C11": 1800,
              "C12": 1800, "C13": 4000, "C14": 1600, "C16": 1500, "C17": 1200, "C18": 900, "C19": 1000, "C20": 1500}

def check(prop, tier):
    t0 = time.time()
    spec = PROPS[prop]
    base_seed = int(os.environ.get("VERIF_SEED", "1"))
    # quick: a fixed number of runs (job i is a pure function of VERIF_SEED and i, so the explored set does not depend on
    # how fast or busy the machine is), with a generous wall-clock cap; thorough: as many runs as fit the time budget
    budget = float(os.environ.get("VERIF_BUDGET_S", spec.get("quick_cap_s", 300) if tier == "quick" else spec.get("thorough_s", 900)))
    arms = spec["arms"]                      # list of dict(profile, faults, flavour, weight, opts)
    SLOW_UNWIND[0] = False
    flavours = sorted({a["flavour"] for a in arms} | set(spec.get("twin_flavours", [])))
    build(flavours)
    findings = load_findings()
    avoid = avoid_tokens(findings, prop) | set(spec.get("avoid", []))
    if os.path.isdir(LOGDIR):
        for f in os.listdir(LOGDIR):
            try:
                os.unlink(os.path.join(LOGDIR, f))
            except OSError:
                pass

    per_flavour = {}
    for a in arms:
        per_flavour.setdefault(a["flavour"], 0)
        per_flavour[a["flavour"]] += a["weight"]
    totw = sum(per_flavour.values())
    nworkers = {}
    left = JOBS
    for i, (fl, w) in enumerate(sorted(per_flavour.items())):
        nworkers[fl] = max(1, round(JOBS * w / totw)) if i < len(per_flavour) - 1 else max(1, left)
        left -= nworkers[fl]

    # deterministic job stream: job i -> arm (weighted round robin by i), seed
    wsum = sum(a["weight"] for a in arms)
    def arm_of(i):
        x = splitmix(i * 2654435761 + 17) % wsum
        for a in arms:
            if x < a["weight"]:
                return a
            x -= a["weight"]
        return arms[-1]

    lock = threading.Lock()
    state = {"stop": False}
    cursor = {}
    stats = {"runs": 0, "ops": 0, "sim_seconds": 0.0, "nontrivial_runs": 0, "crashes": 0, "hangs": 0, "rechecks": 0, "recheck_mismatch": 0,
             "faults": {}, "probes": {}, "by_arm": {}, "foreign": {}, "foreign_ex": {}}
    plan_hashes_nontrivial = set(); sigs = set(); samples = []
    found = {}     # (prop, cls) -> dict(detail, job)
    maxruns = int(os.environ.get("VERIF_MAXRUNS", str(QUICK_RUNS.get(prop, 800)) if tier == "quick" else "0"))
    deadline = time.time() + budget   # the budget is for runs; building is not counted
    recheck_q = queue.Queue()

    def job_cmd(i, a):
        seed = run_seed(base_seed, prop, i)
        opts = dict(a.get("opts", {}))
        opts["faults"] = str(a["faults"])
        if avoid:
            opts["avoid"] = ",".join(sorted(avoid))
        if a.get("leakcheck"):
            opts["knob.leakcheck"] = "1"
        return seed, opts, "seed %s %d %s" % (a["profile"], seed, " ".join("%s=%s" % kv for kv in sorted(opts.items())))

    def worker_loop(fl, idx):
        w = Worker(fl, idx)
        try:
            while True:
                with lock:
                    if state["stop"] or time.time() > deadline:
                        break
                    i = cursor.get(fl, 0)
                    while arm_of(i)["flavour"] != fl:
                        i += 1
                    if maxruns and i >= maxruns:
                        break
                    cursor[fl] = i + 1
                    a = arm_of(i)
                seed, opts, cmd = job_cmd(i, a)
                res, crash = w.run(cmd, spec.get("run_timeout_s", 120))
                if res and res.get("leak"):
                    # LeakSanitizer wrote its report to the worker's log file; the workers unwind fast (frame pointers), which
                    # cannot walk through libgmp, so the plan is re-executed once with the slow unwinder for complete stacks
                    read_san_logs(w.logprefix, w.proc.pid)
                    r2, c2, _ = replay_once(fl, emit_plan(fl, a["profile"], seed, opts), tag="leakstack", slow=True, timeout=600)
                    if r2 is not None and r2.get("leak"):
                        res["leak"] = r2["leak"]
                    elif r2 is not None:
                        res["leak"] = ""   # did not reproduce in a fresh process: reported below as harness nondeterminism
                        res["harness_error"] = "leak reported in the worker did not reproduce in a fresh process"
                plan_text = None
                viols = []
                own = crash is not None or (res and (res.get("leak") or res.get("harness_error") or any(v["prop"] == prop for v in res.get("violations", []))))
                if own:
                    plan_text = emit_plan(fl, a["profile"], seed, opts)
                    viols = violations_of(res, crash, fl, plan_text, a["profile"])
                elif res:
                    viols = [(v["prop"], v["cls"], v["detail"]) for v in res.get("violations", [])]
                with lock:
                    stats["runs"] += 1
                    key = "%s/f%d/%s" % (a["profile"], a["faults"], fl)
                    stats["by_arm"][key] = stats["by_arm"].get(key, 0) + 1
                    if crash is not None:
                        stats["hangs" if crash["kind"] == "hang" else "crashes"] += 1
                    if res:
                        stats["ops"] += res.get("ops", 0); stats["sim_seconds"] += res.get("sim_seconds", 0.0)
                        for k, v in res.get("faults", {}).items():
                            stats["faults"][k] = stats["faults"].get(k, 0) + v
                        for k, v in res.get("probes", {}).items():
                            stats["probes"][k] = stats["probes"].get(k, 0) + v
                        if res.get("nontrivial", {}).get(prop, 0) > 0:
                            stats["nontrivial_runs"] += 1
                            plan_hashes_nontrivial.add(res["plan_hash"])
                            for s in res.get("sigs", []):
                                sigs.add(s)
                            samples.append({"job": i, "profile": a["profile"], "seed": seed, "faults": a["faults"], "flavour": fl})
                            samples.sort(key=lambda s: s["job"]); del samples[4:]
                        if stats["runs"] % 12 == 0 and not res.get("violations"):
                            recheck_q.put((fl, a["profile"], seed, opts, res["transcript_hash"]))
                    for (p, c, d) in viols:
                        if p == prop or p == "HARNESS":
                            found.setdefault((p, c), {"detail": d, "flavour": fl, "profile": a["profile"], "seed": seed, "opts": opts, "plan": plan_text})
                        else:
                            stats["foreign"][p + " " + c] = stats["foreign"].get(p + " " + c, 0) + 1
                            stats["foreign_ex"].setdefault(p + " " + c, "%s %d %s flavour=%s" % (a["profile"], seed, " ".join("%s=%s" % kv for kv in sorted(opts.items())), fl))
                if res and res.get("leak"):
                    w.retire()
        finally:
            w.stop()

    threads = []
    for fl, n in nworkers.items():
        for k in range(n):
            t = threading.Thread(target=worker_loop, args=(fl, k), daemon=True)
            t.start(); threads.append(t)
    for t in threads:
        t.join()

    # determinism self-check: a sample of plans re-executed in a fresh process must give the same transcript hash
    nondet = []
    rechecks = []
    while not recheck_q.empty():
        rechecks.append(recheck_q.get())
    rechecks = rechecks[: (40 if tier == "quick" else 200)]
    def do_recheck(item):
        fl, profile, seed, opts, th = item
        text = emit_plan(fl, profile, seed, opts)
        res, crash, _ = replay_once(fl, text, tag="recheck")
        with lock:
            stats["rechecks"] += 1
            if res is None or res.get("transcript_hash") != th:
                stats["recheck_mismatch"] += 1
                nondet.append((profile, seed))
    rt = []
    for k in range(0, len(rechecks), JOBS):
        batch = [threading.Thread(target=do_recheck, args=(it,)) for it in rechecks[k:k + JOBS]]
        for b in batch: b.start()
        for b in batch: b.join()

    # C17: bit-identical results in three fresh processes of different build flavour, fill pattern and environment
    twin_stats = {"plans": 0, "identical": 0, "inconclusive": 0, "valgrind_plans": 0}
    if spec.get("twin"):
        n_twin = int(os.environ.get("VERIF_TWINS", "32" if tier == "quick" else "300"))
        twin_jobs = []
        k = 0
        while len(twin_jobs) < n_twin:
            a = arms[k % len(arms)]
            seed = run_seed(base_seed, prop + ":twin", k)
            opts = dict(a.get("opts", {})); opts["faults"] = str(a["faults"])
            if avoid:
                opts["avoid"] = ",".join(sorted(avoid))
            twin_jobs.append((a, seed, opts)); k += 1
        def do_twin(job):
            a, seed, opts = job
            text = emit_plan("asan", a["profile"], seed, opts)
            ok, detail = twin_compare(text)
            with lock:
                twin_stats["plans"] += 1
                if ok is None:
                    twin_stats["inconclusive"] += 1
                elif ok:
                    twin_stats["identical"] += 1
                else:
                    found.setdefault(("C17", twin_class(detail)), {"detail": detail, "flavour": "asan", "profile": a["profile"], "seed": seed, "opts": opts, "plan": text})
        for i in range(0, len(twin_jobs), JOBS):
            batch = [threading.Thread(target=do_twin, args=(j,)) for j in twin_jobs[i:i + JOBS]]
            for b in batch: b.start()
            for b in batch: b.join()
        if tier == "thorough" and shutil.which("valgrind"):
            vg_jobs = twin_jobs[: int(os.environ.get("VERIF_VALGRIND", "48"))]
            def do_vg(job):
                a, seed, opts = job
                text = emit_plan("asan", a["profile"], seed, opts)
                txt = valgrind_run(text)
                with lock:
                    twin_stats["valgrind_plans"] += 1
                    if txt.strip():
                        m = re.search(r"== (Invalid \w+|Conditional jump|Use of uninitialised|Syscall param[^\n]{0,30}|Mismatched free|Invalid free)", txt)
                        fr = re.findall(r"(?:at|by) 0x[0-9A-F]+: (\w+) \((\w+\.c)", txt)
                        libfr = [f for (f, src) in fr if not f.startswith(("sim_", "Exec", "main"))][:2]
                        found.setdefault(("C17", "valgrind:%s:%s" % ((m.group(1) if m else "error").replace(" ", "_"), "/".join(libfr))), {"detail": txt[:2500], "flavour": "plain", "profile": a["profile"], "seed": seed, "opts": opts, "plan": text})
            for i in range(0, len(vg_jobs), JOBS):
                batch = [threading.Thread(target=do_vg, args=(j,)) for j in vg_jobs[i:i + JOBS]]
                for b in batch: b.start()
                for b in batch: b.join()

    # judge what was found
    exit_code = 0
    lines = []
    # regression corpus: plans that once showed a defect which has since been repaired (regress/<prop>/*.plan, committed); each is replayed
    # in a fresh process and judged like any other run, so a repaired defect that comes back is reported even if no seed of this run meets it
    reg_dir = os.path.join(ROOT, "regress", prop)
    reg_n = 0
    if os.path.isdir(reg_dir) and not os.environ.get("VERIF_NO_REGRESS"):
        for fn in sorted(os.listdir(reg_dir)):
            if not fn.endswith(".plan"):
                continue
            text = "".join(l for l in open(os.path.join(reg_dir, fn)) if not l.startswith(("expect ", "trace ")))
            m = re.search(r"^expect .*?flavour=(\w+) profile=(\w+)", open(os.path.join(reg_dir, fn)).read(), re.M)
            fl = m.group(1) if m and m.group(1) in flavours else ("asan" if "asan" in flavours else flavours[0])
            pr = m.group(2) if m else (re.search(r"^profile (\w+)", text, re.M) or [None, "hist"])[1]
            res, crash, _ = replay_once(fl, text, tag="regress", timeout=300)
            reg_n += 1
            for (vp, vc, detail) in violations_of(res, crash, fl, text, pr) if (res is not None or crash is not None) else []:
                if vp == prop:
                    found.setdefault((vp, vc), {"detail": "[regression plan regress/%s/%s] %s" % (prop, fn, detail), "flavour": fl, "profile": pr, "seed": 0, "opts": {}, "plan": text})
    known_hit = {}
    replay_dir = os.path.join(OUT, "replays", prop)
    viol_count = 0
    unconfirmed = []
    for (p, c), info in sorted(found.items()):
        if p == "HARNESS":
            lines.append("HARNESS-ERROR: %s %s" % (c, info["detail"][:300].replace("\n", " | ")))
            exit_code = max(exit_code, 2)
            continue
        f = finding_for(findings, p, c)
        if f is not None:
            known_hit[f["id"]] = f
            continue
        # replay gate: same class in a fresh process, twice
        text = info["plan"]
        ok = 0
        for _ in range(1 if c.startswith("hang:") else 2):   # a hang was already confirmed once in a fresh process when it was classified
            if reproduces(info["flavour"], text, p, c, info["profile"]):
                ok += 1
        if c.startswith("hang:"):
            ok += 1
        if ok < 2:
            unconfirmed.append("violation %s %s from seed %d did not reproduce in a fresh process (%d/2)" % (p, c, info["seed"], ok))
            continue
        log = []
        # a change that breaks everything shows up under dozens of classes: the first few are minimised, the rest are reported as they were found
        if viol_count >= int(os.environ.get("VERIF_MAX_SHRUNK", "6")):
            small = text; log.append("not shrunk (more than %s violations in this run)" % os.environ.get("VERIF_MAX_SHRUNK", "6"))
        else:
            small = shrink(info["flavour"], text, p, c, info["profile"], budget=int(os.environ.get("VERIF_SHRINK_BUDGET", "250")), log=log)
        os.makedirs(replay_dir, exist_ok=True)
        name = re.sub(r"[^A-Za-z0-9_.-]+", "_", c)[:80] + "-" + hashlib.sha256(small.encode()).hexdigest()[:8] + ".plan"
        path = os.path.join(replay_dir, name)
        if small != text and not reproduces(info["flavour"], small, p, c, info["profile"], tag="final"):
            small = text   # keep the unshrunk plan rather than a wrong one
        res, crash, tl = replay_once(info["flavour"], small, trace=True, tag="final", timeout=60 if c.startswith("hang:") else 120)
        with open(path, "w") as fh:
            fh.write(small)
            fh.write("expect property=%s class=%s flavour=%s profile=%s seed=%d\n" % (p, c, info["flavour"], info["profile"], info["seed"]))
            for ln in tl:
                if ln.startswith("T "):
                    fh.write("trace " + ln[2:] + "\n")
        lines.append("VIOLATION property=%s replay=%s" % (p, path))
        lines.append("  class=%s seed=%d profile=%s flavour=%s %s" % (c, info["seed"], info["profile"], info["flavour"], log[0] if log else ""))
        lines.append("  " + info["detail"][:400].replace("\n", " | "))
        viol_count += 1
        exit_code = max(exit_code, 1)
    # something seen in a worker that a fresh process does not show is a harness error (exit 2) - unless the same check has a
    # confirmed violation anyway: a change that corrupts memory silently crashes wherever the heap layout takes it, and the
    # layouts of a long-lived worker and of a fresh process differ
    for u in unconfirmed:
        if viol_count:
            lines.append("note: unconfirmed besides the confirmed violation(s): " + u)
        else:
            lines.append("HARNESS-ERROR: " + u); exit_code = max(exit_code, 2)
    for fid, f in sorted(known_hit.items()):
        lines.append("KNOWN-FINDING: property=%s %s [%s]" % (f["property"], f["what"], fid))
    if nondet:
        lines.append("HARNESS-ERROR: nondeterministic transcript for %d of %d re-executed plans, e.g. %s" % (len(nondet), stats["rechecks"], nondet[0]))
        exit_code = max(exit_code, 2)
    wall = time.time() - t0
    if stats["nontrivial_runs"] < 2 and exit_code == 0:
        lines.append("HARNESS-ERROR: fewer than 2 non-trivial runs (%d runs in %.0fs)" % (stats["runs"], wall))
        exit_code = 2

    ev = {
        "property_id": prop, "tier": tier, "seed": base_seed, "level": "exploration",
        "coverage": {
            "evaluations": stats["runs"],
            "distinct_nontrivial": len(plan_hashes_nontrivial),
            "rule": spec["rule"],
            "samples": [dict(s, replay="build/%s/qsim --emit-plan %s %d faults=%d | (replay file)" % (s["flavour"], s["profile"], s["seed"], s["faults"])) for s in samples] or [{"note": "no non-trivial run"}],
            "distinct_state_signatures": len(sigs),
            "operations_executed": stats["ops"],
            "simulated_seconds": round(stats["sim_seconds"], 3),
            "runs_per_hour": int(stats["runs"] / max(wall, 1e-9) * 3600),
            "faults_fired": stats["faults"],
            "probes": stats["probes"],
            "runs_by_arm": stats["by_arm"],
            "worker_crashes": stats["crashes"], "worker_watchdog_timeouts": stats["hangs"], "slow_runs_that_finished_in_a_fresh_process": SLOW_RUNS[0],
            "determinism_rechecks": stats["rechecks"], "determinism_mismatches": stats["recheck_mismatch"],
            "violations_of_other_properties_seen": stats["foreign"],
            "violations_of_other_properties_first_seed": stats["foreign_ex"],
            "known_findings_matched": sorted(known_hit.keys()),
            "regression_plans_replayed": reg_n,
            "twin_runs": twin_stats,
            "avoided_shapes": sorted(avoid),
            "real_components": ["every .c under /repo/qsopt_ex (dbl/mpq/mpf instantiations rebuilt from the working tree)", "esolver/esolver.c", "GMP", "zlib", "libbz2", "glibc stdio above fopencookie"],
            "simulated_components": ["clock (ILLutil_zeit, getrusage, time)", "bytes behind fopen/gzopen/BZ2_bzopen (SimDisk)", "malloc fill patterns", "answers of the float sub-solves only where a flt.* fault fired", "setrlimit/signal/exit in esolver"],
        },
        "assumptions": spec.get("assumptions", []),
        "wall_s": round(wall, 2),
        "violations": viol_count,
    }
    os.makedirs(os.path.join(OUT, "evidence"), exist_ok=True)
    with open(os.path.join(OUT, "evidence", prop + ".json"), "w") as fh:
        json.dump(ev, fh, indent=1, sort_keys=True)
    if tier == "thorough":   # kept next to the file the next quick run rewrites
        os.makedirs(os.path.join(OUT, "evidence", "thorough"), exist_ok=True)
        with open(os.path.join(OUT, "evidence", "thorough", prop + ".json"), "w") as fh:
            json.dump(ev, fh, indent=1, sort_keys=True)
    print("%s %s: %d runs (%d non-trivial, %d distinct), %d ops, %.1fs, faults fired: %s" % (prop, tier, stats["runs"], stats["nontrivial_runs"], len(plan_hashes_nontrivial), stats["ops"], wall,
          ",".join("%s=%d" % kv for kv in sorted(stats["faults"].items())) or "none"))
    for ln in lines:
        print(ln)
    if stats["foreign"]:
        print("note: violations owned by other properties seen on the way: " + "; ".join("%s x%d" % kv for kv in sorted(stats["foreign"].items())[:8]))
    sys.stdout.flush()
    return exit_code


def replay(path):
    text = open(path).read()
    m = re.search(r"^expect property=(\S+) class=(.*?) flavour=(\S+) profile=(\S+)", text, re.M)
    if not m:
        print("HARNESS-ERROR: no expect line in replay file"); return 2
    prop, cls, flavour, profile = m.group(1), m.group(2), m.group(3), m.group(4)
    build([flavour])
    res, crash, tl = replay_once(flavour, text, trace=True, tag="userreplay")
    for ln in tl:
        if ln.startswith("T "):
            print(ln[2:])
    vs = violations_of(res, crash, flavour, text, profile)
    for (p, c, d) in vs:
        print("observed: %s %s :: %s" % (p, c, d[:300].replace("\n", " | ")))
    special = cls.startswith(("nondeterministic:", "valgrind:"))
    if special:
        build(["asan", "asan0", "plain"])
    if (special and reproduces(flavour, text, prop, cls, profile, tag="userreplay")) or any(p == prop and c == cls for (p, c, _) in vs):
        print("VIOLATION property=%s replay=%s" % (prop, path)); return 1
    print("recorded violation did not reproduce"); return 0


if __name__ == "__main__":
    if len(sys.argv) >= 4 and sys.argv[1] == "check":
        sys.exit(check(sys.argv[2], sys.argv[3]))
    if len(sys.argv) >= 3 and sys.argv[1] == "replay":
        sys.exit(replay(sys.argv[2]))
    if len(sys.argv) >= 5 and sys.argv[1] == "shrink":
        # driver.py shrink <plan> <prop> <class> [flavour] [profile]
        fl = sys.argv[5] if len(sys.argv) > 5 else "asan"
        build([fl])
        log = []
        out = shrink(fl, open(sys.argv[2]).read(), sys.argv[3], sys.argv[4], sys.argv[6] if len(sys.argv) > 6 else "hist", log=log)
        print(out); print(log)
        sys.exit(0)
    print(__doc__); sys.exit(2)
