// The simulated world: clock (S1), file layer (S5), allocator (S6), log and std streams (S7), LU seam (S8),
// float-stage seam (S2).  One World per run; `W` is the current one (the library is single threaded).
#pragma once
#include "qs.hpp"
#include "model.hpp"
#include "plan.hpp"
#include <string>
#include <vector>
#include <map>
#include <set>

struct FileFaults {            // per-path script, consumed by the next open of that path
	int open_errno = 0;        // io.open_fail
	long read_eio_at = -1;     // io.read_eio: byte offset at which read returns EIO
	long write_err_at = -1;    // io.write_err: byte offset at which write fails
	long short_write_at = -1;  // io.short_write
	int close_err = 0;         // io.close_err
	int chunk = 0;             // io.chunk: max bytes per read call (0 = unlimited)
};

struct FloatStage {            // what the wrappers saw in one float stage (for probes and oracles)
	int kind = 0;              // 0 dbl, 1 mpf
	unsigned prec = 0;
	int real_rv = 0, real_status = 0, told_status = 0;
	bool warm = false; bool cut = false;   // cut: the stage ran out of simulated time before it started (knob ladder.cut)
	std::vector<std::string> faults;
};

struct World {
	// ---- clock
	double now = 1000.0;
	double step = 1e-6;
	long reads_total = 0, reads_in_op = 0;
	long limit_at_read = -1;          // clk.limit: at this read (within the op) the clock jumps
	double jump = 0;
	int clk_fired = 0;
	int ladder_cut = 0, ladder_cut_fired = 0, ladder_cut_in_op = 0;   // knob ladder.cut: mpf stages above this precision meet an exhausted time budget
	// ---- disk
	std::map<std::string, std::string> files;
	std::map<std::string, FileFaults> ffaults;
	std::set<std::string> expected_paths;      // paths the current op is entitled to open
	std::vector<std::string> stray;             // paths opened that were not expected
	std::map<std::string, int> io_fired;        // fault kind -> times it actually fired
	std::set<std::string> damaged_paths;        // a destructive fault touched this path (write side)
	long eof_polls = 0, max_eof_polls = 0;      // consecutive reads at EOF/error on one stream
	// ---- log
	bool handler_installed = false;
	std::vector<std::string> log;               // messages of the current op (bounded)
	long log_total = 0; long log_null = 0; long log_fragments = 0; std::string log_fragment_first;
	std::string log_expect_tail; bool log_expect_tail_set = false;   // what the message that quoted the text whole said behind it (the same for every length of the text, unless its end was cut off)
	std::string log_expect; long log_expect_full = 0, log_expect_prefix = 0;   // a text the next diagnostics are known to quote (a path): seen whole / seen at least its first 40 characters
	std::map<std::string, int> log_marks;       // marker substring -> count (current op)
	// ---- alloc
	unsigned fill_seed = 0; int fill_on = 0;
	long allocs = 0, frees = 0;
	// ---- LU seam
	int lu_refactor_every = 0; long lu_updates = 0, lu_forced = 0, lu_factors = 0;
	// ---- float seam (valid during one exact-solve op)
	const Op *cur_op = 0;
	const LP *cur_model = 0;                    // model of the object being solved (for the C16 copy check)
	int stage = 0;
	std::vector<FloatStage> stages;
	std::string copy_mismatch;                  // first reduced-precision copy mismatch (C16)
	std::map<std::string, int> flt_fired;
	long copies_checked = 0;
	// ---- cancel
	long cancel_at = -1, reporter_calls = 0; int cancel_fired = 0;
	std::string reporter_sink; bool reporter_is_sink = false;

	void begin_op(const Op *op);
	void end_op();
};
extern World *W;

// std stream capture (fd 1 and 2 are redirected for the whole life of a worker)
void capture_init();
extern int real_out_fd;                       // where result lines go
std::string capture_drain(int which);         // 1 or 2; returns and clears what the library wrote
void out_line(const std::string &s);          // write a line to the real stdout

// log handler
extern "C" void sim_log_handler(const char *msg, void *data);
// reporter used as canceller / sink
extern "C" int sim_reporter(void *dest, const char *s);

// disk helpers
bool disk_exists(const std::string &path);
std::string gz_compress(const std::string &raw);
std::string bz_compress(const std::string &raw);
bool gz_decompress(const std::string &z, std::string &raw);
bool bz_decompress(const std::string &z, std::string &raw);
FILE *sim_open_cookie(const std::string &path, const char *mode);   // a FILE* over SimDisk for the FILE*-taking API

extern "C" {
double __real_ILLutil_zeit(void);
int __real_mpq_ILLfactor_update(mpq_factor_work *f, mpq_svector *a, int col, int *p_refact);
int __real_mpq_ILLfactor(mpq_factor_work *f, int *basis, int *cbeg, int *clen, int *cindx, mpq_t *ccoef, int *p_nsing, int **p_singr, int **p_singc);
}
