#ifndef SIM_SHIM_H
#define SIM_SHIM_H
#ifdef __cplusplus
extern "C" {
#endif
mpq_t *shim_mpq_alloc(int n);
void shim_mpq_free(mpq_t *a);
size_t shim_mpq_size(mpq_t *a);
double *shim_dbl_alloc(int n);
void shim_dbl_free(double *a);
mpf_t *shim_mpf_alloc(int n);
void shim_mpf_free(mpf_t *a);
size_t shim_mpf_size(mpf_t *a);
void shim_svector_init(mpq_svector *s);
int shim_svector_alloc(mpq_svector *s, int n);
void shim_svector_free(mpq_svector *s);
void shim_factor_initvars(mpq_factor_work *f);
void shim_factor_clearvars(mpq_factor_work *f);
unsigned shim_precision(void);
#ifdef __cplusplus
}
#endif
#endif
