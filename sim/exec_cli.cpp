// S10 / C19: the esolver program, run as a real child process of the worker on the simulated disk.
#include "exec.hpp"
#include "shim.h"
#include <sys/wait.h>
#include <algorithm>

extern "C" int esolver_main(int argc, char **argv);
extern "C" void sim_child_finish(int code);   // world.cpp: ship SimDisk back to the parent, then _exit
extern int sim_child_pipe;

static const char *COMP_EXT_SOL[] = {"", ".gz", ".bz2"};
struct CliResult { bool exited = false; int code = -1; int sig = 0; std::map<std::string, std::string> files; };

static CliResult run_esolver(World &w, const std::vector<std::string> &args) {
	CliResult r; int pfd[2]; if (pipe(pfd)) return r;
	fflush(NULL);
	pid_t pid = fork();
	if (pid == 0) {
		close(pfd[0]); sim_child_pipe = pfd[1];
		alarm(120);
		std::vector<std::string> a = args; std::vector<char *> av; for (auto &s : a) av.push_back(&s[0]); av.push_back(0);
		int rv = esolver_main((int)a.size(), av.data());
		sim_child_finish(rv);
		_exit(99);
	}
	close(pfd[1]);
	std::string buf; char tmp[65536]; ssize_t n; while ((n = read(pfd[0], tmp, sizeof tmp)) > 0) buf.append(tmp, n);
	close(pfd[0]);
	int st = 0; waitpid(pid, &st, 0);
	if (WIFEXITED(st)) { r.exited = true; r.code = WEXITSTATUS(st); } else if (WIFSIGNALED(st)) r.sig = WTERMSIG(st);
	// wire format: repeated [u32 pathlen][path][u32 datalen][data]
	size_t pos = 0; while (pos + 4 <= buf.size()) { uint32_t pl; memcpy(&pl, &buf[pos], 4); pos += 4; if (pos + pl + 4 > buf.size()) break; std::string path = buf.substr(pos, pl); pos += pl; uint32_t dl; memcpy(&dl, &buf[pos], 4); pos += 4; if (pos + dl > buf.size()) break; r.files[path] = buf.substr(pos, dl); pos += dl; }
	for (auto &kv : r.files) w.files[kv.first] = kv.second;
	return r;
}

static bool parse_solution(const std::string &text, std::string &status, Q &value, bool &have_value, std::map<std::string, Q> sect[4], std::string &err) {
	// sections: 0 VARS, 1 REDUCED COST, 2 PI, 3 SLACK
	int cur = -1; have_value = false; status.clear();
	for (auto &ln : split(text, '\n')) {
		if (starts_with(ln, "status = ")) { status = ln.substr(9); continue; }
		if (starts_with(ln, "status ")) continue;
		if (starts_with(ln, "\tValue = ")) { if (!parse_q(ln.substr(9), value)) { err = "bad value " + ln; return false; } have_value = true; continue; }
		if (ln == "VARS:") { cur = 0; continue; } if (ln == "REDUCED COST:") { cur = 1; continue; } if (ln == "PI:") { cur = 2; continue; } if (ln == "SLACK:") { cur = 3; continue; }
		if (ln.empty()) continue;
		size_t e = ln.find(" = "); if (e == std::string::npos || cur < 0) { err = "unparsable line: " + ln.substr(0, 80); return false; }
		Q v; if (!parse_q(ln.substr(e + 3), v)) { err = "bad number in: " + ln.substr(0, 80); return false; }
		if (sect[cur].count(ln.substr(0, e))) { err = "name listed twice: " + ln.substr(0, e); return false; }
		sect[cur][ln.substr(0, e)] = v;
	}
	return !status.empty();
}

void Exec::op_esolver(Client &c) {
	(void)c;
	if (prob_paths.empty()) { T("  skip (no problem file)"); return; }
	std::string path = prob_paths[modn(op->i("pick", -1), (long)prob_paths.size())]; FileInfo info = files[path];
	bool missing = op->i("missing", 0) != 0; if (missing) path = "/sim/nosuch.lp";
	bool lpfmt = info.fmt == "LP";
	std::string sol = "/sim/out" + std::to_string(step) + ".sol" + COMP_EXT_SOL[modn(op->i("solcomp", 0), 3)];
	if (op->i("longsol", 0)) sol = "/sim/" + std::string((size_t)(1010 + modn(op->i("longsol"), 200)), 'o') + std::to_string(step) + ".sol";   // a long, perfectly legal output name
	if (op->i("hibyte", 0) && !missing && world.files.count(path)) { std::string p2 = path; size_t sl = p2.rfind('/'); p2.insert(sl + 1, modn(op->i("hibyte"), 2) ? "d\xc3\xa9j\xc3\xa0_" : "my problems 2026 "); world.files[p2] = world.files[path]; files[p2] = info; path = p2; }   // a file name with bytes above 127
	std::vector<std::string> args = {"esolver"};
	// -L forces LP; without it the format is chosen by extension
	if (lpfmt && op->i("forceL", 0)) args.push_back("-L");
	args.push_back("-O"); args.push_back(sol);
	if (op->has("p")) { static const int pp[] = {1, 2, 3, 4}; args.push_back("-p"); args.push_back(std::to_string(pp[modn(op->i("p"), 4)])); }
	if (op->has("d")) { static const int dp[] = {6, 7, 8, 9}; args.push_back("-d"); args.push_back(std::to_string(dp[modn(op->i("d"), 4)])); }
	if (op->i("S", 0)) args.push_back("-S");
	if (op->has("P")) { static const int pr[] = {64, 128, 256, 512}; args.push_back("-P"); args.push_back(std::to_string(pr[modn(op->i("P"), 4)])); }
	std::string wb, rb;
	if (op->i("b", 0)) { wb = "/sim/cli" + std::to_string(step) + ".bas"; args.push_back("-b"); args.push_back(wb); }
	if (op->i("B", 0) && !last_cli_basis.empty() && last_cli_basis_for == path) { rb = last_cli_basis; args.push_back("-B"); args.push_back(rb); }
	args.push_back(path);
	if (const Fault *f = op->fault("io.open_fail")) { FileFaults ff; static const int e[] = {ENOENT, EACCES, EMFILE, ENOSPC, EISDIR}; ff.open_errno = e[modn(fi(*f, "e"), 5)]; world.ffaults[path] = ff; }
	if (const Fault *f = op->fault("io.chunk")) { FileFaults ff; ff.chunk = (int)std::max(1L, fi(*f, "n", 9)); world.ffaults[path] = ff; }
	bool sol_unopenable = false; if (const Fault *f = op->fault("io.sol_open_fail")) { FileFaults ff; static const int e[] = {ENOENT, EACCES, EMFILE, ENOSPC, EISDIR}; ff.open_errno = e[modn(fi(*f, "e"), 5)]; world.ffaults[sol] = ff; sol_unopenable = true; }
	world.expected_paths.insert(path); world.expected_paths.insert(sol); if (!wb.empty()) world.expected_paths.insert(wb); if (!rb.empty()) world.expected_paths.insert(rb);
	bool exists = world.files.count(path) != 0;
	// a file from the foreign producer that nothing damaged is readable input too, and there the harness knows what the text denotes
	bool foreign_clean = info.foreign && info.precond && !info.hit && exists && !missing && !op->fault("io.open_fail");
	bool damaged = (info.damaged && !foreign_clean) || !exists || op->fault("io.open_fail");
	std::string line; for (auto &a : args) line += a + " ";
	CliResult r = run_esolver(world, args);
	{ std::string o1 = capture_drain(1), o2 = capture_drain(2);   // esolver talks on stdout/stderr by design; not a C20 subject
	  if (trace) for (auto &ln : split(o1 + o2, '\n')) out_line("E   " + ln.substr(0, 200)); }
	T(strf("  esolver [%s] exists=%d damaged=%d -> %s code=%d sig=%d solfile=%d", line.c_str(), exists, damaged, r.exited ? "exit" : "signal", r.code, r.sig, (int)world.files.count(sol)));
	signature(strf("esolver:%s:%d%d:%s:%d", info.fmt.c_str(), exists, damaged, r.exited ? "exit" : "sig", r.code != 0));
	if (!r.exited) { violate("C19", strf("crash:signal%d:%s", r.sig, damaged ? "bad-input" : sol_unopenable ? "output-unopenable" : "good-input"), "esolver was killed by signal " + std::to_string(r.sig) + " running: " + line); return; }
	if (r.code == 77) { violate("C19", std::string("crash:sanitizer:") + (damaged ? "bad-input" : sol_unopenable ? "output-unopenable" : op->i("longsol", 0) ? "long-output-name" : "good-input"), "the sanitizer stopped esolver running: " + line.substr(0, 300)); return; }
	if (sol_unopenable) { probe(r.code ? "cli.output_unopenable_reported" : "cli.output_unopenable_exit0"); return; }   // nothing more is asked of a run that cannot write its result
	nontrivial("C19");
	if (damaged) {
		// unreadable / malformed input: non-zero exit without crashing; a damaged file the reader still accepts may legitimately be solved
		if (!exists && r.code == 0) violate("C19", "missing-input-exit0", "esolver exited 0 although the input file cannot be opened");
		probe(r.code ? "cli.bad_input_rejected" : "cli.bad_input_accepted");
		return;
	}
	// readable input: the file denotes the problem the library reads from it (C08/C09 decide that part)
	mpq_QSprob q = mpq_QSread_prob(path.c_str(), info.fmt.c_str()); after_lib_call("cli-oracle-read");
	if (!q) { probe("cli.oracle_reader_failed"); if (r.code == 0) violate("C19", "exit0-on-unreadable", "esolver exited 0 on a file the reader rejects"); return; }
	LP M; std::string err; bool okd = lib_dump(q, 0, M, err); mpq_QSfree_prob(q);
	if (!okd) { probe("cli.oracle_dump_failed"); return; }
	if (r.code != 0) { violate("C19", "nonzero-exit-on-readable-input", strf("esolver exited %d on a readable input: %s", r.code, line.c_str())); return; }
	auto sit = world.files.find(sol); if (sit == world.files.end()) { violate("C19", "no-solution-file", "esolver exited 0 but wrote no solution file"); return; }
	bool okz; std::string text = sol.size() > 3 && sol.compare(sol.size() - 3, 3, ".gz") == 0 ? [&] { std::string t; okz = gz_decompress(sit->second, t); return t; }() : sol.size() > 4 && sol.compare(sol.size() - 4, 4, ".bz2") == 0 ? [&] { std::string t; okz = bz_decompress(sit->second, t); return t; }() : sit->second;
	std::string status; Q value; bool hv; std::map<std::string, Q> sect[4]; std::string perr;
	if (!parse_solution(text, status, value, hv, sect, perr)) { violate("C19", "solution-file-unparsable", perr + " in " + text.substr(0, 200)); return; }
	T("  solution file status=" + status + (hv ? " value=" + qstr(value) : ""));
	// truth: reference solver on small problems, else the library's own certified answer
	LP denoted = M;
	if (foreign_clean) { denoted = info.model; if (lpfmt) { std::vector<int> er; for (size_t i = 0; i < denoted.rows.size(); i++) { bool ne = false; for (auto &kv : denoted.rows[i].coef) if (kv.second != 0) ne = true; if (!ne) er.push_back((int)i); } denoted.del_rows(er); } probe("cli.foreign_input"); }   // the LP rendering leaves out empty rows
	int truth_status = 0; Q truth_value; const RefResult &t = truth(denoted);
	if (t.status && t.err.empty()) { truth_status = t.status; truth_value = t.value; }
	else { std::string e2; mpq_QSprob q2 = lib_build(denoted, "build", &e2); if (q2) { const Op *saved = world.cur_op; world.cur_op = 0; QSexact_set_precision(128); SolveOut so = raw_solve(q2, "exact", PRIMAL_SIMPLEX, false, false, 0, false); world.cur_op = saved; if (so.rv == 0 && definitive(so.status)) { truth_status = so.status; if (so.status == QS_LP_OPTIMAL) { QArr v(1); if (!mpq_QSget_objval(q2, v.p())) truth_value = lib_to_q(v.at(0)); } } mpq_QSfree_prob(q2); after_lib_call("cli-oracle-solve"); } }
	std::string want = truth_status == QS_LP_OPTIMAL ? "OPTIMAL" : truth_status == QS_LP_INFEASIBLE ? "INFEASIBLE" : truth_status == QS_LP_UNBOUNDED ? "UNBOUNDED" : "";
	if (want.empty()) { probe("cli.no_truth"); return; }
	if (status != want) {
		// the ladder-flip known finding (C03) makes UNDEFINED a possible honest answer of the library; esolver must then say UNDEFINED, never a wrong definitive status
		if (status == "UNDEFINED") { probe("cli.undefined_status"); return; }
		violate("C19", std::string(foreign_clean ? "foreign-input:" : "") + "wrong-status:" + status + "-truth-" + want, "solution file says " + status + " but the problem " + (foreign_clean ? "the file denotes " : "") + "is " + want + " (" + line + ")"); return; }
	if (status == "OPTIMAL") {
		if (!hv) { violate("C19", "optimal-without-value", "OPTIMAL solution file has no Value line"); return; }
		std::vector<Q> x(M.cols.size()), rc(M.cols.size()), pi(M.rows.size()), sl(M.rows.size());
		for (int k = 0; k < 4; k++) for (auto &kv : sect[k]) { int idx = k < 2 ? M.col_index(kv.first) : M.row_index(kv.first); if (idx < 0) { violate("C19", "unknown-name-in-solution", "solution file lists unknown name " + kv.first); return; } if (kv.second == 0) { violate("C19", "zero-listed", "solution file lists a zero entry for " + kv.first); return; } (k == 0 ? x : k == 1 ? rc : k == 2 ? pi : sl)[idx] = kv.second; }
		Verdict v = check_optimal(M, x, pi, &rc, &sl, &value);
		if (!v.ok) { violate("C19", "solution-not-optimal", v.why + " (" + line + ")"); return; }
		if (value != truth_value) { violate("C19", std::string(foreign_clean ? "foreign-input:" : "") + "wrong-value", "solution file value " + qstr(value) + " but the optimum is " + qstr(truth_value)); return; }
		probe("cli.optimal_certified");
	} else probe("cli.status_" + status);
	// -b / -B: the basis written must read back and be optimal
	if (!wb.empty() && status == "OPTIMAL") {
		if (!world.files.count(wb)) { violate("C19", "basis-not-written", "-b given, OPTIMAL, but no basis file"); return; }
		last_cli_basis = wb; last_cli_basis_for = path;
		std::string e3; mpq_QSprob q3 = lib_build(M, "build", &e3);
		if (q3) { QSbasis *B = mpq_QSread_basis(q3, wb.c_str()); after_lib_call("cli-oracle-basis");
			if (!B) violate("C19", "basis-unreadable", "the basis esolver wrote with -b cannot be read back");
			else { std::string cs(B->cstat ? B->cstat : "", B->cstat ? B->nstruct : 0), rs(B->rstat ? B->rstat : "", B->rstat ? B->nrows : 0); mpq_QSfree_basis(B);
				if (cs.size() == M.cols.size() && rs.size() == M.rows.size()) { BasisEval e = eval_basis(M, cs, rs); if (e.counts_ok && !e.singular && !(e.primal_feasible && e.dual_feasible)) violate("C19", "basis-not-optimal", "the basis written with -b is not an optimal basis: " + cs + "|" + rs); else probe("cli.basis_optimal"); } }
			mpq_QSfree_prob(q3); }
	}
	if (!rb.empty()) probe("cli.warm_started_with_B");
}
