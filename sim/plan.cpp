#include "plan.hpp"

static std::string args_text(const Args &a) {
	std::string s; for (auto &kv : a) { s += " "; s += kv.first; s += "="; s += kv.second; } return s;
}

std::string Plan::text() const {
	std::string s = "qsim-plan 1\nprofile " + profile + "\n";
	for (auto &kv : knobs) s += "knob " + kv.first + " " + kv.second + "\n";
	for (auto &lp : lps) {
		s += strf("lp %d %s\n", lp.id, lp.objsense > 0 ? "min" : "max");
		for (auto &c : lp.cols) s += strf("c %d %s %s %s %s %d\n", lp.id, c.name.c_str(), c.obj.c_str(), c.lo.c_str(), c.up.c_str(), c.isint);
		for (auto &r : lp.rows) {
			s += strf("r %d %s %c %s %s", lp.id, r.name.c_str(), r.sense, r.rhs.c_str(), r.range.c_str());
			for (auto &p : r.nz) s += strf(" %d:%s", p.first, p.second.c_str());
			s += "\n";
		}
	}
	for (auto &o : ops) {
		s += strf("op %d %s", o.client, o.kind.c_str()) + args_text(o.a) + "\n";
		for (auto &f : o.faults) s += "f " + f.kind + args_text(f.a) + "\n";
	}
	return s;
}

static void parse_args(const std::vector<std::string> &w, size_t from, Args &a) {
	for (size_t i = from; i < w.size(); i++) { size_t e = w[i].find('='); if (e == std::string::npos) a[w[i]] = "1"; else a[w[i].substr(0, e)] = w[i].substr(e + 1); }
}

bool Plan::parse(const std::string &text, std::string *err) {
	*this = Plan();
	size_t pos = 0; int lineno = 0;
	auto find_lp = [&](int id) -> PlanLP * { for (auto &l : lps) if (l.id == id) return &l; return 0; };
	while (pos < text.size()) {
		size_t e = text.find('\n', pos); if (e == std::string::npos) e = text.size();
		std::string line = text.substr(pos, e - pos); pos = e + 1; lineno++;
		if (line.empty() || line[0] == '#') continue;
		std::vector<std::string> w = split(line);
		if (w.empty()) continue;
		const std::string &k = w[0];
		if (k == "qsim-plan") continue;
		else if (k == "profile" && w.size() >= 2) profile = w[1];
		else if (k == "knob" && w.size() >= 3) knobs[w[1]] = w[2];
		else if (k == "lp" && w.size() >= 3) { PlanLP l; l.id = atoi(w[1].c_str()); l.objsense = w[2] == "max" ? -1 : 1; lps.push_back(l); }
		else if (k == "c" && w.size() >= 7) { PlanLP *l = find_lp(atoi(w[1].c_str())); if (!l) continue; PlanCol c; c.name = w[2]; c.obj = w[3]; c.lo = w[4]; c.up = w[5]; c.isint = atoi(w[6].c_str()); l->cols.push_back(c); }
		else if (k == "r" && w.size() >= 6) { PlanLP *l = find_lp(atoi(w[1].c_str())); if (!l) continue; PlanRow r; r.name = w[2]; r.sense = w[3][0]; r.rhs = w[4]; r.range = w[5];
			for (size_t i = 6; i < w.size(); i++) { size_t c = w[i].find(':'); if (c == std::string::npos) continue; r.nz.push_back({atoi(w[i].substr(0, c).c_str()), w[i].substr(c + 1)}); }
			l->rows.push_back(r); }
		else if (k == "op" && w.size() >= 3) { Op o; o.client = atoi(w[1].c_str()); o.kind = w[2]; parse_args(w, 3, o.a); ops.push_back(o); }
		else if (k == "f" && w.size() >= 2) { if (ops.empty()) continue; Fault f; f.kind = w[1]; parse_args(w, 2, f.a); ops.back().faults.push_back(f); }
		else if (k == "expect" || k == "trace") continue;   // annotations written by the driver into replay files
		else { if (err) *err = strf("line %d: cannot parse '%s'", lineno, line.c_str()); return false; }
	}
	return true;
}
