#include "exec.hpp"
#include "shim.h"
#include <algorithm>
#include <climits>

// "i:v,i:v" -> unique indices (mod n), non-zero values
static std::vector<std::pair<int, Q>> parse_nz(const std::string &s, int n) {
	std::vector<std::pair<int, Q>> out; if (n <= 0) return out;
	std::set<int> seen;
	for (auto &tok : split(s, ',')) { size_t c = tok.find(':'); if (c == std::string::npos) continue; long i = strtol(tok.substr(0, c).c_str(), 0, 10); Q v; if (!parse_q(tok.substr(c + 1), v) || v == 0) continue;
		int k = (int)(((i % n) + n) % n); if (seen.count(k)) continue; seen.insert(k); out.push_back({k, v}); }
	return out;
}
static std::vector<long> parse_list(const std::string &s) { std::vector<long> v; for (auto &t : split(s, ',')) if (!t.empty()) v.push_back(strtol(t.c_str(), 0, 10)); return v; }
static Q argq(const Op *op, const char *k, long def = 0) { Q v; if (!op->has(k) || !parse_q(op->s(k), v)) v = def; return v; }
static Num argn(const Op *op, const char *k, const Num &def) { Num v; if (!op->has(k) || !parse_num(op->s(k), v)) v = def; return v; }
static char sense_of(long v) { static const char s[] = {'L', 'G', 'E', 'R'}; return s[((v % 4) + 4) % 4]; }
static char sense_arg(const Op *op, const char *k) { std::string s = op->s(k, "L"); if (s == "L" || s == "G" || s == "E" || s == "R") return s[0]; return sense_of(strtol(s.c_str(), 0, 10)); }

static std::string unique_name(const std::string &want, bool row, const LP &m, int step) {
	if (want == "-" || want.empty()) return "";
	std::string n = want; int k = 0;
	while ((row ? m.row_index(n) : m.col_index(n)) >= 0) n = want + strf("_%d_%d", step, k++);
	return n;
}
static const long BADIDX[] = {-1, 0 /*n*/, 1 /*n+1*/, 2 /*n+m*/, INT_MAX, INT_MIN + 1, -1000};
static int bad_index(long v, int n, int m_other) { int k = (int)(((v % 7) + 7) % 7); if (k == 1) return n; if (k == 2) return n + 1; if (k == 3) return n + m_other; return (int)BADIDX[k]; }

void Exec::op_edit(Client &c) {
	Obj *o = pick_obj(c, op->i("o")); if (!o || o->broken) { T("  skip"); return; }
	if (const Fault *f = op->fault("api.invalid")) { edit_invalid(*o, *f); return; }
	std::string what = op->s("what", "chgobj");
	int n = (int)o->m.cols.size(), m = (int)o->m.rows.size();
	LP &M = o->m; mpq_QSprob p = o->p; int rv = 0; bool applied = false;
	QArr t(4);
	snapshot_others(o);
	bool had_cache_status_optimal = false; { int st = 0; if (!mpq_QSget_status(p, &st) && st == QS_LP_OPTIMAL) had_cache_status_optimal = true; }

	if (what == "newcol" || what == "addcol") {
		MCol col; col.obj = argq(op, "obj"); col.lo = argn(op, "lo", Num(Q(0))); col.up = argn(op, "up", Num::pinf()); if (cmp(col.lo, col.up) > 0) std::swap(col.lo, col.up);
		col.name = unique_name(op->s("name", "-"), false, M, step);
		mpq_set(t.at(0), col.obj.get_mpq_t()); q_to_lib(col.lo, t.at(1)); q_to_lib(col.up, t.at(2));
		std::vector<std::pair<int, Q>> nz; if (what == "addcol") nz = parse_nz(op->s("nz"), m);
		if (what == "newcol") rv = mpq_QSnew_col(p, t.at(0), t.at(1), t.at(2), col.name.empty() ? 0 : col.name.c_str());
		else { std::vector<int> ind; QArr v(nz.size() + 1); for (size_t k = 0; k < nz.size(); k++) { ind.push_back(nz[k].first); mpq_set(v.at(k), nz[k].second.get_mpq_t()); }
			rv = mpq_QSadd_col(p, (int)nz.size(), ind.empty() ? 0 : ind.data(), v.p(), t.at(0), t.at(1), t.at(2), col.name.empty() ? 0 : col.name.c_str()); }
		if (!rv) { M.cols.push_back(col); for (auto &e : nz) M.rows[e.first].coef[n] = e.second; applied = true; }
	} else if (what == "addcols") {
		int cnt = 1 + modn(op->i("cnt", 2), 3); std::vector<MCol> cols; std::vector<std::vector<std::pair<int, Q>>> nzs;
		for (int k = 0; k < cnt; k++) { MCol col; col.obj = argq(op, strf("obj%d", k).c_str(), k + 1); col.lo = argn(op, strf("lo%d", k).c_str(), Num(Q(0))); col.up = argn(op, strf("up%d", k).c_str(), Num::pinf()); if (cmp(col.lo, col.up) > 0) std::swap(col.lo, col.up);
			LP tmp = M; for (auto &cc : cols) tmp.cols.push_back(cc); std::string wantname = op->s(strf("name%d", k), "-");
			// "@gen": the very name the library is about to generate for the unnamed entry before this one (x<n+k>), given explicitly - a valid call
			if (wantname == "@gen") { std::string g = strf("x%d", n + k); wantname = (k > 0 && cols[k - 1].name.empty() && tmp.col_index(g) < 0) ? g : std::string("-"); if (wantname != "-") { col.name = wantname; probe("edit.explicit_name_like_generated"); } }
			if (col.name.empty()) col.name = unique_name(wantname, false, tmp, step); cols.push_back(col); nzs.push_back(parse_nz(op->s(strf("nz%d", k)), m)); }
		std::vector<int> ccnt, cbeg, ind; size_t tot = 0; for (auto &z : nzs) tot += z.size();
		QArr val(tot + 1), obj(cnt), lo(cnt), up(cnt); std::vector<const char *> names; size_t q = 0; bool anynull = false;
		for (int k = 0; k < cnt; k++) { cbeg.push_back((int)q); ccnt.push_back((int)nzs[k].size()); for (auto &e : nzs[k]) { ind.push_back(e.first); mpq_set(val.at(q++), e.second.get_mpq_t()); }
			mpq_set(obj.at(k), cols[k].obj.get_mpq_t()); q_to_lib(cols[k].lo, lo.at(k)); q_to_lib(cols[k].up, up.at(k)); names.push_back(cols[k].name.empty() ? 0 : cols[k].name.c_str()); if (cols[k].name.empty()) anynull = true; }
		if (ind.empty()) ind.push_back(0);
		bool nullnames = anynull && op->i("nullnames", 0);
		rv = mpq_QSadd_cols(p, cnt, ccnt.data(), cbeg.data(), ind.data(), val.p(), obj.p(), lo.p(), up.p(), nullnames ? 0 : names.data());
		if (!rv) { for (int k = 0; k < cnt; k++) { if (nullnames) cols[k].name = ""; M.cols.push_back(cols[k]); for (auto &e : nzs[k]) M.rows[e.first].coef[n + k] = e.second; } applied = true; }
	} else if (what == "newrow" || what == "addrow") {
		MRow r; r.rhs = argq(op, "rhs"); r.sense = sense_arg(op, "sense"); r.range = argq(op, "range"); if (r.range < 0) r.range = -r.range; if (r.sense != 'R') r.range = 0;
		r.name = unique_name(op->s("name", "-"), true, M, step);
		std::vector<std::pair<int, Q>> nz; if (what == "addrow") nz = parse_nz(op->s("nz"), n);
		mpq_set(t.at(0), r.rhs.get_mpq_t()); mpq_set(t.at(1), r.range.get_mpq_t());
		if (what == "newrow") { if (r.sense == 'R') r.range = 0; rv = mpq_QSnew_row(p, t.at(0), r.sense, r.name.empty() ? 0 : r.name.c_str()); }
		else { std::vector<int> ind; QArr v(nz.size() + 1); for (size_t k = 0; k < nz.size(); k++) { ind.push_back(nz[k].first); mpq_set(v.at(k), nz[k].second.get_mpq_t()); }
			if (r.sense == 'R' || op->i("ranged", 0)) rv = mpq_QSadd_ranged_row(p, (int)nz.size(), ind.empty() ? 0 : ind.data(), (const mpq_t *)v.p(), (const mpq_t *)t.at(0), r.sense, (const mpq_t *)t.at(1), r.name.empty() ? 0 : r.name.c_str());
			else rv = mpq_QSadd_row(p, (int)nz.size(), ind.empty() ? 0 : ind.data(), (const mpq_t *)v.p(), (const mpq_t *)t.at(0), r.sense, r.name.empty() ? 0 : r.name.c_str()); }
		if (!rv) { for (auto &e : nz) r.coef[e.first] = e.second; M.rows.push_back(r); applied = true; }
	} else if (what == "addrows") {
		int cnt = 1 + modn(op->i("cnt", 2), 3); std::vector<MRow> rows; std::vector<std::vector<std::pair<int, Q>>> nzs; bool ranged = op->i("ranged", 0) != 0;
		for (int k = 0; k < cnt; k++) { MRow r; r.rhs = argq(op, strf("rhs%d", k).c_str(), k); r.sense = sense_arg(op, strf("sense%d", k).c_str()); if (!ranged && r.sense == 'R') r.sense = 'E';
			r.range = argq(op, strf("range%d", k).c_str(), 1); if (r.range < 0) r.range = -r.range; if (r.sense != 'R') r.range = 0;
			LP tmp = M; for (auto &rr : rows) tmp.rows.push_back(rr); std::string wantname = op->s(strf("name%d", k), "-");
			if (wantname == "@gen") { std::string g = strf("c%d", m + k); wantname = (k > 0 && rows[k - 1].name.empty() && tmp.row_index(g) < 0) ? g : std::string("-"); if (wantname != "-") { r.name = wantname; probe("edit.explicit_name_like_generated"); } }
			if (r.name.empty()) r.name = unique_name(wantname, true, tmp, step); nzs.push_back(parse_nz(op->s(strf("nz%d", k)), n)); for (auto &e : nzs.back()) r.coef[e.first] = e.second; rows.push_back(r); }
		std::vector<int> rcnt, rbeg, ind; size_t tot = 0; for (auto &z : nzs) tot += z.size();
		QArr val(tot + 1), rhs(cnt), rng(cnt); std::vector<char> sense; std::vector<const char *> names; size_t q = 0;
		for (int k = 0; k < cnt; k++) { rbeg.push_back((int)q); rcnt.push_back((int)nzs[k].size()); for (auto &e : nzs[k]) { ind.push_back(e.first); mpq_set(val.at(q++), e.second.get_mpq_t()); }
			mpq_set(rhs.at(k), rows[k].rhs.get_mpq_t()); mpq_set(rng.at(k), rows[k].range.get_mpq_t()); sense.push_back(rows[k].sense); names.push_back(rows[k].name.empty() ? 0 : rows[k].name.c_str()); }
		if (ind.empty()) ind.push_back(0);
		if (ranged) rv = mpq_QSadd_ranged_rows(p, cnt, rcnt.data(), rbeg.data(), ind.data(), (const mpq_t *)val.p(), (const mpq_t *)rhs.p(), sense.data(), (const mpq_t *)rng.p(), names.data());
		else rv = mpq_QSadd_rows(p, cnt, rcnt.data(), rbeg.data(), ind.data(), (const mpq_t *)val.p(), (const mpq_t *)rhs.p(), sense.data(), names.data());
		if (!rv) { for (auto &r : rows) M.rows.push_back(r); applied = true; }
	} else if (what == "delrow" || what == "delrows" || what == "delsetrows" || what == "delnamedrow" || what == "delnamedrows") {
		if (m == 0) { T("  skip"); compare_others("edit"); return; }
		std::vector<int> d;
		if (what == "delrow" || what == "delnamedrow") d.push_back(modn(op->i("i"), m));
		else { for (long v : parse_list(op->s("list", "0"))) { int k = modn(v, m); if (std::find(d.begin(), d.end(), k) == d.end()) d.push_back(k); } if (d.empty()) d.push_back(0); }
		// "prefer": the first row to go is chosen by what the present basis says about it (non-basic at its upper end, at its lower end, basic) -
		// which rows may be deleted under a live solution depends on exactly that
		if (op->has("prefer")) { StoredBasis pb; std::string pf = op->s("prefer"); char want = pf == "upper" ? '2' : pf == "lower" ? '0' : '1';
			if (get_basis(*o, pb) && (int)pb.rstat.size() == m) { std::vector<int> cand; for (int k = 0; k < m; k++) if (pb.rstat[k] == want) cand.push_back(k);
				if (!cand.empty()) { int k = cand[modn(op->i("i", 0), (long)cand.size())]; d.erase(std::remove(d.begin(), d.end(), k), d.end()); d.insert(d.begin(), k); if (what == "delrow" || what == "delnamedrow") d.resize(1); probe("edit.delrow_by_status." + pf); } } }
		if (what == "delrow") rv = mpq_QSdelete_row(p, d[0]);
		else if (what == "delrows") { std::vector<int> dd = d; rv = mpq_QSdelete_rows(p, (int)dd.size(), dd.data()); }
		else if (what == "delsetrows") { std::vector<int> fl(m, 0); for (int k : d) fl[k] = 1; rv = mpq_QSdelete_setrows(p, fl.data()); }
		else if (what == "delnamedrow") rv = mpq_QSdelete_named_row(p, M.rows[d[0]].name.c_str());
		else { std::vector<const char *> nm; for (int k : d) nm.push_back(M.rows[k].name.c_str()); rv = mpq_QSdelete_named_rows_list(p, (int)nm.size(), nm.data()); }
		if (!rv) { std::sort(d.begin(), d.end()); M.del_rows(d); applied = true; }
	} else if (what == "delcol" || what == "delcols" || what == "delsetcols" || what == "delnamedcol" || what == "delnamedcols") {
		if (n == 0) { T("  skip"); compare_others("edit"); return; }
		std::vector<int> d;
		if (what == "delcol" || what == "delnamedcol") d.push_back(modn(op->i("j"), n));
		else { for (long v : parse_list(op->s("list", "0"))) { int k = modn(v, n); if (std::find(d.begin(), d.end(), k) == d.end()) d.push_back(k); } if (d.empty()) d.push_back(0); }
		if (what == "delcol") rv = mpq_QSdelete_col(p, d[0]);
		else if (what == "delcols") { std::vector<int> dd = d; rv = mpq_QSdelete_cols(p, (int)dd.size(), dd.data()); }
		else if (what == "delsetcols") { std::vector<int> fl(n, 0); for (int k : d) fl[k] = 1; rv = mpq_QSdelete_setcols(p, fl.data()); }
		else if (what == "delnamedcol") rv = mpq_QSdelete_named_column(p, M.cols[d[0]].name.c_str());
		else { std::vector<const char *> nm; for (int k : d) nm.push_back(M.cols[k].name.c_str()); rv = mpq_QSdelete_named_columns_list(p, (int)nm.size(), nm.data()); }
		if (!rv) { std::sort(d.begin(), d.end()); M.del_cols(d); applied = true; }
	} else if (what == "chgcoef") {
		if (!n || !m) { T("  skip"); compare_others("edit"); return; }
		int i = modn(op->i("i"), m), j = modn(op->i("j"), n); Q v = argq(op, "v", 1);
		mpq_set(t.at(0), v.get_mpq_t()); rv = mpq_QSchange_coef(p, i, j, t.at(0));
		if (!rv) { M.rows[i].coef[j] = v; applied = true; }   // a zero stays as an explicit zero entry (not canonical, counted separately)
	} else if (what == "chgobj") {
		if (!n) { T("  skip"); compare_others("edit"); return; }
		int j = modn(op->i("j"), n); Q v = argq(op, "v", 1);
		if (op->s("v", "") == "@") { auto it = o->saved_obj.find(M.cols[j].name); if (it == o->saved_obj.end()) { T("  skip (nothing saved)"); compare_others("edit"); return; } v = it->second; }   // put back what an earlier chgobj with save=1 replaced
		else if (op->i("save", 0)) o->saved_obj[M.cols[j].name] = M.cols[j].obj;
		mpq_set(t.at(0), v.get_mpq_t()); rv = mpq_QSchange_objcoef(p, j, t.at(0)); if (!rv) { M.cols[j].obj = v; applied = true; }
	} else if (what == "chgrhs") {
		if (!m) { T("  skip"); compare_others("edit"); return; }
		int i = modn(op->i("i"), m); Q v = argq(op, "v", 1); mpq_set(t.at(0), v.get_mpq_t()); rv = mpq_QSchange_rhscoef(p, i, t.at(0)); if (!rv) { M.rows[i].rhs = v; applied = true; }
	} else if (what == "chgsense") {
		if (!m) { T("  skip"); compare_others("edit"); return; }
		int i = modn(op->i("i"), m); char s = sense_arg(op, "sense"); rv = mpq_QSchange_sense(p, i, s); if (!rv) { M.rows[i].sense = s; M.rows[i].range = 0; applied = true; }
	} else if (what == "chgsenses") {
		if (!m) { T("  skip"); compare_others("edit"); return; }
		std::vector<int> rows; std::vector<char> ss; std::vector<long> l = parse_list(op->s("list", "0")); std::string sn = op->s("senses", "L");
		for (size_t k = 0; k < l.size(); k++) { int i = modn(l[k], m); if (std::find(rows.begin(), rows.end(), i) != rows.end()) continue; rows.push_back(i); char ch = sn[k % sn.size()]; ss.push_back((ch == 'L' || ch == 'G' || ch == 'E' || ch == 'R') ? ch : 'L'); }
		rv = mpq_QSchange_senses(p, (int)rows.size(), rows.data(), ss.data()); if (!rv) { for (size_t k = 0; k < rows.size(); k++) { M.rows[rows[k]].sense = ss[k]; M.rows[rows[k]].range = 0; } applied = true; }
	} else if (what == "chgrange") {
		std::vector<int> rr; for (int i = 0; i < m; i++) if (M.rows[i].sense == 'R') rr.push_back(i);
		if (rr.empty()) { T("  skip (no ranged row)"); compare_others("edit"); return; }
		int i = rr[modn(op->i("i"), (long)rr.size())]; Q v = argq(op, "v", 1); if (v < 0) v = -v; mpq_set(t.at(0), v.get_mpq_t()); rv = mpq_QSchange_range(p, i, t.at(0)); if (!rv) { M.rows[i].range = v; applied = true; }
	} else if (what == "chgbound") {
		if (!n) { T("  skip"); compare_others("edit"); return; }
		int j = modn(op->i("j"), n); std::string lu = op->s("lu", "U"); char L = (lu == "L" || lu == "U" || lu == "B") ? lu[0] : (modn(strtol(lu.c_str(), 0, 10), 3) == 0 ? 'L' : modn(strtol(lu.c_str(), 0, 10), 3) == 1 ? 'U' : 'B');
		Num v = argn(op, "v", Num(Q(1))); if (L == 'B' && !v.fin()) v = Num(Q(0));
		if (L == 'L' && cmp(v, M.cols[j].up) > 0) v = M.cols[j].up; if (L == 'U' && cmp(v, M.cols[j].lo) < 0) v = M.cols[j].lo;
		if (L == 'L' && v.inf > 0) v = Num(Q(0)); if (L == 'U' && v.inf < 0) v = Num(Q(0));
		if ((L == 'L' && cmp(v, M.cols[j].up) > 0) || (L == 'U' && cmp(v, M.cols[j].lo) < 0)) { T("  skip (would cross bounds)"); compare_others("edit"); return; }
		q_to_lib(v, t.at(0)); rv = mpq_QSchange_bound(p, j, L, t.at(0));
		if (!rv) { if (L == 'L' || L == 'B') M.cols[j].lo = v; if (L == 'U' || L == 'B') M.cols[j].up = v; applied = true; }
	} else if (what == "chgbounds") {
		if (!n) { T("  skip"); compare_others("edit"); return; }
		std::vector<long> l = parse_list(op->s("list", "0")); std::vector<int> cols; std::vector<char> lus; std::vector<Num> vals; LP tmp = M;
		for (size_t k = 0; k < l.size(); k++) { int j = modn(l[k], n); if (std::find(cols.begin(), cols.end(), j) != cols.end()) continue; char L = "LUB"[k % 3 == 0 ? modn(op->i("lu0", 1), 3) : (int)((k + op->i("lu0", 1)) % 3)];
			Num v; if (!parse_num(op->s(strf("v%d", (int)k), "1"), v)) v = Num(Q(1)); if (!v.fin() && L == 'B') v = Num(Q(0)); if (L == 'L' && v.inf > 0) v = Num(Q(0)); if (L == 'U' && v.inf < 0) v = Num(Q(0));
			if (L == 'L' && cmp(v, tmp.cols[j].up) > 0) v = tmp.cols[j].up; if (L == 'U' && cmp(v, tmp.cols[j].lo) < 0) v = tmp.cols[j].lo;
			if ((L == 'L' && v.inf > 0) || (L == 'U' && v.inf < 0)) continue;
			cols.push_back(j); lus.push_back(L); vals.push_back(v); if (L == 'L' || L == 'B') tmp.cols[j].lo = v; if (L == 'U' || L == 'B') tmp.cols[j].up = v; }
		if (cols.empty()) { T("  skip"); compare_others("edit"); return; }
		QArr bv(vals.size()); for (size_t k = 0; k < vals.size(); k++) q_to_lib(vals[k], bv.at(k));
		rv = mpq_QSchange_bounds(p, (int)cols.size(), cols.data(), lus.data(), (const mpq_t *)bv.p()); if (!rv) { M = tmp; applied = true; }
	} else if (what == "chgobjsense") {
		int s = op->i("s", 1) >= 0 && modn(op->i("s", 1), 2) == 1 ? QS_MIN : QS_MAX; rv = mpq_QSchange_objsense(p, s); if (!rv) { M.objsense = s == QS_MAX ? -1 : 1; applied = true; }
	} else { T("  unknown edit (skipped)"); compare_others("edit"); return; }

	after_lib_call("edit:" + what);
	T(strf("  edit %s rv=%d", what.c_str(), rv));
	signature("edit:" + what + ":" + o->life + strf(":%d", rv != 0));
	if (rv) { violate("C06", "valid-edit-rejected:" + what, strf("a valid %s was rejected (rv=%d)", what.c_str(), rv)); o->broken = true; compare_others("edit"); return; }
	if (applied) {
		sync_names(*o);
		if (o->ever_solved || o->ever_interrupted) { probe("edit.on_solved_object"); if (had_cache_status_optimal) probe("edit.on_optimal_object"); }
		o->edited_since_solve = true; if (o->life != "empty" || !M.cols.empty() || !M.rows.empty()) o->life = "edited";
		nontrivial("C06");
	}
	compare_others("edit");
	check_dump(*o, "after-edit");
	if (!stop && !o->broken) check_accessors(*o, "after-edit", false);
}

// ------------------------------------------------------------------ invalid twins (C07)
bool Exec::edit_invalid(Obj &o, const Fault &f) {
	std::string what = op->s("what", "chgobj"); long v = fi(f, "v", 0);
	int n = (int)o.m.cols.size(), m = (int)o.m.rows.size(); mpq_QSprob p = o.p; LP &M = o.m;
	QArr t(4); mpq_set_ui(t.at(0), 1, 1); mpq_set_ui(t.at(1), 0, 1); mpq_set_ui(t.at(2), 5, 1); mpq_set_ui(t.at(3), 1, 1);
	std::string before = snapshot(o); int rv = 0; std::string w = what; bool lenient = false;
	int badc = bad_index(v, n, m), badr = bad_index(v, m, n);
	// a few variants are only meaningful when the "bad" index is not accidentally valid
	auto col_is_bad = [&](int j) { return j < 0 || j >= n; }; auto row_is_bad = [&](int i) { return i < 0 || i >= m; };
	if ((what == "addcols" || what == "addrows") && modn(v / 11, 3) == 0) {
		// the same fresh name twice within one call, at every pair of positions of a three-entry list
		static const int pa[3] = {0, 1, 0}, pb[3] = {1, 2, 2}; int k = modn(v, 3);
		std::string nn[3] = {strf("dupa%d", step), strf("dupb%d", step), strf("dupc%d", step)}; nn[pb[k]] = nn[pa[k]];
		const char *nm[3] = {nn[0].c_str(), nn[1].c_str(), nn[2].c_str()}; int cnt[3] = {0, 0, 0}, beg[3] = {0, 0, 0}, ind[1] = {0};
		w = what + strf(":dupname-in-call-%d%d", pa[k], pb[k]);
		if (what == "addcols") { QArr ob(3), lo(3), up(3); for (int q = 0; q < 3; q++) mpq_set_ui(up.at(q), 3, 1); rv = mpq_QSadd_cols(p, 3, cnt, beg, ind, t.p() + 3, ob.p(), lo.p(), up.p(), nm); }
		else { QArr rh(3); char ss[3] = {'L', 'G', 'E'}; rv = mpq_QSadd_rows(p, 3, cnt, beg, ind, (const mpq_t *)t.at(3), (const mpq_t *)rh.p(), ss, nm); }
	} else if (what == "newcol" || what == "addcol" || what == "addcols") {
		if (modn(v, 2) == 0 && n > 0) { w = what + ":dupname";   // every name the problem has, starting anywhere: a rejected call changes nothing, so the sweep goes on until one is accepted
			for (int q = 0; q < n; q++) { const char *nm = M.cols[modn(v / 2 + q, n)].name.c_str(); rv = what == "newcol" ? mpq_QSnew_col(p, t.at(0), t.at(1), t.at(2), nm) : mpq_QSadd_col(p, 0, 0, 0, t.at(0), t.at(1), t.at(2), nm); if (rv == 0) break; } probe("c07.dupname_sweep"); }
		else if (what != "newcol") { w = what + ":badrow"; if (!row_is_bad(badr)) { T("  skip"); return false; } int ind[1] = {badr};
			if (what == "addcol") rv = mpq_QSadd_col(p, 1, ind, t.p() + 3, t.at(0), t.at(1), t.at(2), strf("inv%d", step).c_str());
			else { int cc[2] = {0, 1}, cb[2] = {0, 0}; QArr ob(2), lo(2), up(2); mpq_set_ui(up.at(0), 3, 1); mpq_set_ui(up.at(1), 3, 1); std::string n0 = strf("inva%d", step), n1 = strf("invb%d", step); const char *nm[2] = {n0.c_str(), n1.c_str()};
				w = "addcols:second-badrow"; rv = mpq_QSadd_cols(p, 2, cc, cb, ind, t.p() + 3, ob.p(), lo.p(), up.p(), nm); } }
		else { T("  skip"); return false; }
	} else if (what == "newrow" || what == "addrow" || what == "addrows") {
		int k = modn(v, 3);
		if (k == 0 && m > 0) { w = what + ":dupname";
			for (int q = 0; q < m; q++) { const char *nm = M.rows[modn(v / 3 + q, m)].name.c_str(); rv = what == "newrow" ? mpq_QSnew_row(p, t.at(0), 'L', nm) : mpq_QSadd_row(p, 0, 0, 0, (const mpq_t *)t.at(0), 'L', nm); if (rv == 0) break; } probe("c07.dupname_sweep"); }
		else if (k == 1) { w = what + ":badsense"; static const char bs[] = {'X', 'N', 'l', '<', 1}; char s = bs[modn(v / 3, 5)]; std::string nm = strf("inv%d", step); rv = what == "newrow" ? mpq_QSnew_row(p, t.at(0), s, nm.c_str()) : mpq_QSadd_row(p, 0, 0, 0, (const mpq_t *)t.at(0), s, nm.c_str()); }
		else if (what != "newrow") { if (!col_is_bad(badc)) { T("  skip"); return false; } int ind[1] = {badc}; std::string nm = strf("inv%d", step);
			if (what == "addrow") { w = "addrow:badcol"; rv = mpq_QSadd_row(p, 1, ind, (const mpq_t *)t.at(3), (const mpq_t *)t.at(0), 'L', nm.c_str()); }
			else { w = "addrows:second-badcol"; int rc[2] = {0, 1}, rb[2] = {0, 0}; QArr rh(2); char ss[2] = {'L', 'G'}; std::string n0 = strf("inva%d", step), n1 = strf("invb%d", step); const char *nms[2] = {n0.c_str(), n1.c_str()}; rv = mpq_QSadd_rows(p, 2, rc, rb, ind, (const mpq_t *)t.at(3), (const mpq_t *)rh.p(), ss, nms); } }
		else { T("  skip"); return false; }
	} else if ((what == "delrows" || what == "delnamedrows") && m > 0 && modn(v / 7, 3) == 2) {
		int i = modn(v, m); w = what + ":duplicate";
		if (what == "delrows") { int l[2] = {i, i}; rv = mpq_QSdelete_rows(p, 2, l); } else { const char *l[2] = {M.rows[i].name.c_str(), M.rows[i].name.c_str()}; rv = mpq_QSdelete_named_rows_list(p, 2, l); }
	} else if ((what == "delcols" || what == "delnamedcols") && n > 0 && modn(v / 7, 3) == 2) {
		int j = modn(v, n); w = what + ":duplicate";
		if (what == "delcols") { int l[2] = {j, j}; rv = mpq_QSdelete_cols(p, 2, l); } else { const char *l[2] = {M.cols[j].name.c_str(), M.cols[j].name.c_str()}; rv = mpq_QSdelete_named_columns_list(p, 2, l); }
	} else if (what == "delrow" || what == "delrows" || what == "delsetrows") { if (!row_is_bad(badr)) { T("  skip"); return false; }
		if (what == "delrow") { w = "delrow:badindex"; rv = mpq_QSdelete_row(p, badr); } else { w = "delrows:one-bad"; int l[2] = {0, badr}; rv = m > 0 ? mpq_QSdelete_rows(p, 2, l) : mpq_QSdelete_rows(p, 1, l + 1); }
	} else if (what == "delnamedrow" || what == "delnamedrows") { w = what + ":unknown"; std::string nm = strf("nosuchrow%d", step);
		if (what == "delnamedrow") rv = mpq_QSdelete_named_row(p, nm.c_str()); else { const char *l[2] = {m > 0 ? M.rows[0].name.c_str() : nm.c_str(), nm.c_str()}; rv = mpq_QSdelete_named_rows_list(p, 2, l); }
	} else if (what == "delcol" || what == "delcols" || what == "delsetcols") { if (!col_is_bad(badc)) { T("  skip"); return false; }
		if (what == "delcol") { w = "delcol:badindex"; rv = mpq_QSdelete_col(p, badc); } else { w = "delcols:one-bad"; int l[2] = {0, badc}; rv = n > 0 ? mpq_QSdelete_cols(p, 2, l) : mpq_QSdelete_cols(p, 1, l + 1); }
	} else if (what == "delnamedcol" || what == "delnamedcols") { w = what + ":unknown"; std::string nm = strf("nosuchcol%d", step);
		if (what == "delnamedcol") rv = mpq_QSdelete_named_column(p, nm.c_str()); else { const char *l[2] = {n > 0 ? M.cols[0].name.c_str() : nm.c_str(), nm.c_str()}; rv = mpq_QSdelete_named_columns_list(p, 2, l); }
	} else if (what == "chgcoef") { bool br = modn(v / 7, 2) == 0; if (br ? !row_is_bad(badr) : !col_is_bad(badc)) { T("  skip"); return false; } if (!n || !m) { T("  skip"); return false; }
		w = br ? "chgcoef:badrow" : "chgcoef:badcol"; rv = br ? mpq_QSchange_coef(p, badr, 0, t.at(0)) : mpq_QSchange_coef(p, 0, badc, t.at(0));
	} else if (what == "chgobj") { if (!col_is_bad(badc)) { T("  skip"); return false; } w = "chgobj:badindex"; rv = mpq_QSchange_objcoef(p, badc, t.at(0));
	} else if (what == "chgrhs") { if (!row_is_bad(badr)) { T("  skip"); return false; } w = "chgrhs:badindex"; rv = mpq_QSchange_rhscoef(p, badr, t.at(0));
	} else if (what == "chgsense" || what == "chgsenses") {
		if (modn(v / 7, 2) == 0) { if (!row_is_bad(badr)) { T("  skip"); return false; } if (what == "chgsense") { w = "chgsense:badindex"; rv = mpq_QSchange_sense(p, badr, 'G'); } else { w = "chgsenses:one-bad"; int l[2] = {0, badr}; char ss[2] = {'G', 'G'}; rv = m > 0 ? mpq_QSchange_senses(p, 2, l, ss) : mpq_QSchange_senses(p, 1, l + 1, ss); } }
		else { if (!m) { T("  skip"); return false; } static const char bs[] = {'X', 'N', 'l', 0, '='}; w = "chgsense:badsense"; rv = mpq_QSchange_sense(p, modn(v, m), bs[modn(v / 14, 5)]); }
	} else if (what == "chgrange") {
		if (modn(v / 7, 2) == 0) { if (!row_is_bad(badr)) { T("  skip"); return false; } w = "chgrange:badindex"; rv = mpq_QSchange_range(p, badr, t.at(0)); }
		else { int i = -1; for (int k = 0; k < m; k++) if (M.rows[k].sense != 'R') { i = k; break; } if (i < 0) { T("  skip"); return false; } w = "chgrange:not-ranged"; rv = mpq_QSchange_range(p, i, t.at(0)); }
	} else if (what == "chgbound" || what == "chgbounds") {
		if (modn(v / 7, 2) == 0) { if (!col_is_bad(badc)) { T("  skip"); return false; }
			if (what == "chgbound") { w = strf("chgbound:badindex%s", badc == n ? ":n" : ""); rv = mpq_QSchange_bound(p, badc, 'U', t.at(2)); }
			else { w = "chgbounds:one-bad"; int l[2] = {0, badc}; char lu[2] = {'U', 'U'}; QArr bv(2); mpq_set_ui(bv.at(0), 7, 1); mpq_set_ui(bv.at(1), 7, 1); if (n > 0 && cmp(Num(Q(7)), M.cols[0].lo) < 0) { T("  skip"); return false; } rv = n > 0 ? mpq_QSchange_bounds(p, 2, l, lu, (const mpq_t *)bv.p()) : mpq_QSchange_bounds(p, 1, l + 1, lu, (const mpq_t *)bv.p()); } }
		else { if (!n) { T("  skip"); return false; } static const char bl[] = {'X', 'l', 0, 'u', 'b'}; w = "chgbound:badselector"; rv = mpq_QSchange_bound(p, modn(v, n), bl[modn(v / 14, 5)], t.at(2)); }
	} else if (what == "chgobjsense") { static const int bs[] = {0, 2, -2, 100}; w = "chgobjsense:badvalue"; rv = mpq_QSchange_objsense(p, bs[modn(v, 4)]);
	} else { T("  skip (no invalid twin)"); return false; }
	(void)lenient;
	invalid_epilogue(o, w, rv, before);
	return true;
}

// invalid arguments to query functions (C07)
void Exec::op_query_invalid(Client &c) {
	Obj *o = pick_obj(c, op->i("o")); if (!o || o->broken) { T("  skip"); return; }
	long v = op->i("v"); int n = (int)o->m.cols.size(), m = (int)o->m.rows.size(); mpq_QSprob p = o->p;
	int badc = bad_index(v, n, m), badr = bad_index(v, m, n);
	bool cbad = badc < 0 || badc >= n, rbad = badr < 0 || badr >= m;
	QArr t(4); std::string before = snapshot(*o); int rv = 0; std::string w; bool idx_neg1 = false;
	switch (modn(v / 7, 18)) {
	case 16: case 17: if (!cbad || !n) { T("  skip"); return; } { bool first = modn(v / 7, 18) == 16; w = first ? "strongbranch:badindex-first" : "strongbranch:badindex-second"; int l[2] = {first ? badc : modn(v, n), first ? modn(v, n) : badc}; QArr dn(2), up(2), ob(1); mpq_set_ui(ob.at(0), 1000000, 1);
		rv = mpq_QSopt_strongbranch(p, 2, l, 0, dn.p(), up.p(), 3, ob.at(0)); } break;
	case 0: if (!cbad) { T("  skip"); return; } w = strf("getbound:badindex%s", badc == n ? ":n" : ""); rv = mpq_QSget_bound(p, badc, 'L', t.ptr(0)); break;
	case 1: if (!n) { T("  skip"); return; } w = "getbound:badselector"; rv = mpq_QSget_bound(p, modn(v, n), 'X', t.ptr(0)); break;
	case 2: if (!rbad || !n) { T("  skip"); return; } w = "getcoef:badrow"; rv = mpq_QSget_coef(p, badr, 0, t.ptr(0)); break;
	case 3: if (!cbad || !m) { T("  skip"); return; } w = "getcoef:badcol"; rv = mpq_QSget_coef(p, 0, badc, t.ptr(0)); break;
	case 4: if (!cbad) { T("  skip"); return; } { w = "getobjlist:badindex"; int l[1] = {badc}; rv = mpq_QSget_obj_list(p, 1, l, t.p()); } break;
	case 5: if (!cbad) { T("  skip"); return; } { w = "getboundslist:badindex"; int l[1] = {badc}; rv = mpq_QSget_bounds_list(p, 1, l, t.p(), t.p() + 1); } break;
	case 6: if (!rbad) { T("  skip"); return; } { w = "getrowslist:badindex"; int l[1] = {badr}; int *a = 0, *b = 0, *ci = 0; mpq_t *vv = 0, *rh = 0; char *s = 0; char **nm = 0; rv = mpq_QSget_rows_list(p, 1, l, &a, &b, &ci, &vv, &rh, &s, &nm);
		if (!rv) { mpq_QSfree(a); mpq_QSfree(b); mpq_QSfree(ci); shim_mpq_free(vv); shim_mpq_free(rh); mpq_QSfree(s); if (nm) { mpq_QSfree(nm[0]); mpq_QSfree(nm); } } } break;
	case 7: if (!cbad) { T("  skip"); return; } { w = "getcolumnslist:badindex"; int l[1] = {badc}; int *a = 0, *b = 0, *ci = 0; mpq_t *vv = 0; rv = mpq_QSget_columns_list(p, 1, l, &a, &b, &ci, &vv, 0, 0, 0, 0);
		if (!rv) { mpq_QSfree(a); mpq_QSfree(b); mpq_QSfree(ci); shim_mpq_free(vv); } } break;
	case 8: if (!rbad) { T("  skip"); return; } { w = "getrangedrowslist:badindex"; int l[1] = {badr}; mpq_t *rg = 0; rv = mpq_QSget_ranged_rows_list(p, 1, l, 0, 0, 0, 0, 0, 0, &rg, 0); if (!rv) shim_mpq_free(rg); } break;
	case 9: w = "namedx:unknown"; rv = mpq_QSget_named_x(p, strf("nosuch%d", step).c_str(), t.ptr(0)); break;
	case 10: w = "namedpi:unknown"; rv = mpq_QSget_named_pi(p, strf("nosuch%d", step).c_str(), t.ptr(0)); break;
	case 11: { w = "rowindex:unknown"; int idx = 7; rv = mpq_QSget_row_index(p, strf("nosuch%d", step).c_str(), &idx); idx_neg1 = idx == -1; } break;
	case 12: { w = "colindex:unknown"; int idx = 7; rv = mpq_QSget_column_index(p, strf("nosuch%d", step).c_str(), &idx); idx_neg1 = idx == -1; } break;
	case 13: if (!rbad) { T("  skip"); return; } { w = "binvrow:badindex"; QArr r(m + 1); rv = mpq_QSget_binv_row(p, badr, r.p()); } break;
	case 14: if (!rbad) { T("  skip"); return; } { w = "tableaurow:badindex"; QArr r(n + m + 1); rv = mpq_QSget_tableau_row(p, badr, r.p()); } break;
	default: { w = "getparam:badwhich"; int val = 0; rv = mpq_QSget_param(p, 99, &val); } break;
	}
	// name lookups signal "not found" through index -1; that counts as a rejection
	if (rv == 0 && idx_neg1) rv = -1;
	invalid_epilogue(*o, w, rv, before);
}
