#include "planner.hpp"
#include "model.hpp"
#include <set>
#include <algorithm>

namespace {

struct Gen {
	Rng r; Plan &p; std::set<std::string> avoid; bool faults; bool longrun; const Args &opts;
	int numfam = 0; int nobj_created = 0;
	Gen(uint64_t seed, Plan &pl, const Args &o) : r(seed), p(pl), faults(false), longrun(false), opts(o) {
		auto it = o.find("avoid"); if (it != o.end()) for (auto &t : split(it->second, ',')) avoid.insert(t);
		it = o.find("faults"); faults = it != o.end() && it->second != "0";
		it = o.find("long"); longrun = it != o.end() && it->second != "0";
	}
	bool ok(const std::string &tok) const { return !avoid.count(tok); }

	// ---------------------------------------------------------------- numbers
	std::string num_in(int fam) {
		switch (fam) {
		case 0: return std::to_string(r.range(-4, 6));
		case 1: { static const int q[] = {2, 3, 5, 7, 11, 13}; int a = r.range(-9, 9), b = q[r.below(6)]; Q v(a, b); v.canonicalize(); return v.get_str(); }
		case 2: { int k = r.range(-7, 7); if (!k) k = 3; int e = r.range(-120, 120); return strf("%d*2^%d", k, e); }
		case 3: { static const char *d[] = {"0.1", "0.25", "2.75", "-0.3", "1.5", "0.001", "12.5", "-7.125", "0.7"}; return d[r.below(9)]; }
		case 4: { long a = (long)r.below(2000000000000ULL) - 1000000000000L, b = (long)r.below(999999999989ULL) + 1; Q v(a, b); v.canonicalize(); return v.get_str(); }
		default: return num_in((int)r.below(4));
		}
	}
	std::string num() { return num_in(numfam); }
	std::string nonzero() { for (int k = 0; k < 8; k++) { std::string s = num(); Q v; if (parse_q(s, v) && v != 0) return s; } return "1"; }
	std::string pos() { std::string s = nonzero(); Q v; parse_q(s, v); if (v < 0) v = -v; return v.get_str(); }

	// ---------------------------------------------------------------- LP generator (families of DESIGN 3.5)
	PlanLP gen_lp(int id, int maxn, int maxm, int minn = 1, int minm = -1) {
		PlanLP L; L.id = id; L.objsense = r.chance(1, 2) ? 1 : -1;
		numfam = (int)r.below(6);
		int n = r.range(minn, maxn), m = minm >= 0 ? r.range(minm, maxm) : r.range(r.chance(1, 12) ? 0 : 1, maxm);
		int fam = (int)r.below(10);   // 0-3 feasible generic, 4 degenerate, 5 infeasible, 6 barely infeasible, 7 lower-dimensional face, 8 near-parallel, 9 unbounded-leaning
		std::vector<Q> x0(n); std::vector<Num> lo(n), up(n);
		// one LP in eight has names long enough for the writers to wrap objective and constraint lines
		bool longnames = r.chance(1, 8);
		auto tail = [&]() { std::string t = "_"; int len = r.range(20, 90); for (int q = 0; q < len; q++) t.push_back("abcdefghijklmnopqrstuvwxyzABCDEFXYZ_"[r.below(36)]); return t; };
		for (int j = 0; j < n; j++) {
			PlanCol c; c.name = strf("x%d", j); if (r.chance(1, 10)) c.name = strf("v_%d", j); if (longnames) c.name += tail();
			c.obj = r.chance(1, 6) ? "0" : num();
			int bt = (int)r.below(fam == 9 ? 5 : 8);   // bound type
			Q a, b; parse_q(num(), a); parse_q(pos(), b);
			switch (bt) {
			case 0: case 5: case 6: lo[j] = Num(Q(0)); up[j] = Num::pinf(); break;
			case 1: lo[j] = Num::ninf(); up[j] = Num::pinf(); break;
			case 2: lo[j] = Num::ninf(); up[j] = Num(a); break;
			case 3: lo[j] = Num(a); up[j] = Num::pinf(); break;
			case 4: lo[j] = Num(a); up[j] = Num(Q(a + b)); break;
			default: lo[j] = Num(a); up[j] = Num(a); break;   // fixed
			}
			if (bt == 2 && a > 0 && r.chance(1, 2)) up[j] = Num(Q(-a));   // negative upper bound
			c.lo = numstr(lo[j]); c.up = numstr(up[j]);
			// most columns get an objective sign that cannot run off to infinity (unbounded LPs walk the whole
			// 13-stage ladder and are expensive); fam 9 and 1 column in 5 keep an arbitrary sign
			if (fam != 9 && !r.chance(1, n > 20 ? 80 : 5)) { Q cv; parse_q(c.obj, cv); int want = 0;   // sign of c in minimisation form that is safe
				if (lo[j].fin() && !up[j].fin()) want = 1; else if (!lo[j].fin() && up[j].fin()) want = -1; else if (!lo[j].fin() && !up[j].fin()) want = 2;
				if (want == 2) c.obj = "0"; else if (want != 0) { Q mf = Q(L.objsense) * cv; if ((want > 0 && mf < 0) || (want < 0 && mf > 0)) { cv = -cv; c.obj = cv.get_str(); } } }
			// a point inside the bounds
			Q t; parse_q(pos(), t);
			if (lo[j].fin() && up[j].fin()) x0[j] = r.chance(1, 3) ? lo[j].v : r.chance(1, 2) ? up[j].v : Q((lo[j].v + up[j].v) / 2);
			else if (lo[j].fin()) x0[j] = r.chance(1, 2) ? lo[j].v : Q(lo[j].v + t);
			else if (up[j].fin()) x0[j] = r.chance(1, 2) ? up[j].v : Q(up[j].v - t);
			else parse_q(num(), x0[j]);
			L.cols.push_back(c);
		}
		int density = r.range(25, 90); if (n > 20) density = r.range(4, 30);   // wide problems stay sparse
		for (int i = 0; i < m; i++) {
			PlanRow R; R.name = strf("r%d", i); if (r.chance(1, 10)) R.name = strf("con_%d", i); if (longnames && r.chance(1, 2)) R.name += tail();
			Q act = 0;
			bool empty = r.chance(1, 25);
			if (fam == 8 && i > 0 && r.chance(1, 2)) {   // near-parallel to the previous row: differs far below double precision
				R.nz = L.rows[i - 1].nz; if (!R.nz.empty()) { size_t k = r.below(R.nz.size()); Q v; parse_q(R.nz[k].second, v); Q eps(1); mpq_div_2exp(eps.get_mpq_t(), eps.get_mpq_t(), 70 + r.below(60)); v += v * eps; R.nz[k].second = v.get_str(); }
			} else if (!empty) {
				for (int j = 0; j < n; j++) if ((int)r.below(100) < density) R.nz.push_back({j, nonzero()});
				if (R.nz.empty()) R.nz.push_back({(int)r.below(n), nonzero()});
			}
			for (auto &e : R.nz) { Q v; parse_q(e.second, v); act += v * x0[e.first]; }
			Q s1, s2; parse_q(pos(), s1); parse_q(pos(), s2);
			if (fam == 4 || r.chance(1, 4)) s1 = 0;          // active at x0: degeneracy
			if (fam == 7) { s1 = 0; s2 = 0; }
			int st = (int)r.below(fam == 7 ? 3 : 7);
			switch (st) {
			case 0: case 4: R.sense = 'L'; R.rhs = Q(act + s1).get_str(); break;
			case 1: case 5: R.sense = 'G'; R.rhs = Q(act - s1).get_str(); break;
			case 2: R.sense = 'E'; R.rhs = act.get_str(); break;
			default: R.sense = 'R'; R.rhs = Q(act - s1).get_str(); R.range = Q(s1 + s2).get_str(); if (r.chance(1, 8)) R.range = "0", R.rhs = act.get_str(); break;
			}
			if (R.range.empty()) R.range = "0";
			L.rows.push_back(R);
		}
		// names that are plain tokens and still special: the label the writers give an unnamed objective, and what the library generates for unnamed rows / columns
		if (m > 0 && r.chance(1, 14)) { static const char *sp[] = {"obj", "obj", "OBJ", "c1", "r_1", "c2_0", "freerow", "endrow", "stay", "boundary", "minrow", "subjectx"}; L.rows[r.below(L.rows.size())].name = sp[r.below(12)]; }
		if (n > 0 && r.chance(1, 12)) { static const char *sp[] = {"obj", "x1", "c1", "x_2", "freedom", "free_1", "Freeze", "infty", "infinite", "minor", "maxim", "stx", "endcol", "boundsx", "integers2", "generalx", "binaryx", "max", "min", "st", "end", "bounds", "integer", "general", "binary", "subject", "to", "problem", "Maximize", "END", "inf", "free", "Infinity", "INF", "Free"}; std::string nm = sp[r.below(35)];   /* plain tokens: like the writers' defaults, or beginning like a keyword of the LP format */ bool used = false; for (auto &c : L.cols) if (c.name == nm) used = true;
			if (!used) { size_t jj = r.below(L.cols.size()); L.cols[jj].name = nm;
				/* the LP writer puts the upper half of a ranged row on a line of its own, without a label: when the row begins with this column and
				   its coefficient is 1, the line begins with the bare name */
				if (m > 0 && r.chance(1, 2)) { PlanRow &R = L.rows[r.below(L.rows.size())]; if (R.sense != 'R') { R.sense = 'R'; R.range = pos(); } std::vector<std::pair<int, std::string>> nz2; nz2.push_back({(int)jj, "1"}); for (auto &e : R.nz) if (e.first > (int)jj) nz2.push_back(e); R.nz = nz2; } } }
		// names that are no LP tokens: the LP writer has to repair them (and say the same name everywhere it uses it)
		if (r.chance(1, 10)) { static const char *bad[] = {"x[1]", "2nd", "a-b", "q*r", "7up", "r<1>", "c=d", "k+1", "y[2,3]", "3"}; int k = r.range(1, 3);
			for (int t = 0; t < k; t++) { std::string nm = bad[r.below(10)]; bool col = n > 0 && (m == 0 || r.chance(2, 3)); bool used = false; for (auto &c : L.cols) if (c.name == nm) used = true; for (auto &rr : L.rows) if (rr.name == nm) used = true; if (used) continue;
				if (col) L.cols[r.below(L.cols.size())].name = nm; else if (m > 0) L.rows[r.below(L.rows.size())].name = nm; } }
		if ((fam == 5 || fam == 6) && m > 0) {   // add a contradicting twin of some row
			size_t i = r.below(L.rows.size()); PlanRow T = L.rows[i]; T.name = strf("rX%d", (int)L.rows.size());
			if (T.nz.empty()) T.nz.push_back({0, "1"}), L.rows[i].nz = T.nz;
			Q rhs; parse_q(L.rows[i].rhs, rhs); Q rg; parse_q(L.rows[i].range, rg); Q delta; parse_q(pos(), delta);
			if (fam == 6) { delta = 1; mpz_class ten; mpz_ui_pow_ui(ten.get_mpz_t(), 10, 20 + r.below(20)); delta /= Q(ten); }
			char s = L.rows[i].sense;
			if (s == 'L') { T.sense = 'G'; T.rhs = Q(rhs + delta).get_str(); }
			else if (s == 'G') { T.sense = 'L'; T.rhs = Q(rhs - delta).get_str(); }
			else if (s == 'E') { T.sense = r.chance(1, 2) ? 'G' : 'E'; T.rhs = Q(rhs + delta).get_str(); }
			else { T.sense = 'G'; T.rhs = Q(rhs + rg + delta).get_str(); }
			T.range = "0"; L.rows.push_back(T);
		}
		return L;
	}

	// ---------------------------------------------------------------- ops
	Op mk(int client, const std::string &kind) { Op o; o.client = client; o.kind = kind; return o; }
	void set(Op &o, const std::string &k, const std::string &v) { o.a[k] = v; }
	void seti(Op &o, const std::string &k, long v) { o.a[k] = std::to_string(v); }
	std::string nzlist(int maxk) { std::string s; int k = r.range(0, maxk); for (int t = 0; t < k; t++) { if (t) s += ","; s += std::to_string(r.below(50)) + ":" + nonzero(); } return s.empty() ? std::to_string(r.below(50)) + ":" + nonzero() : s; }
	std::string bound_val(bool upper) { int k = (int)r.below(6); if (k == 0) return upper ? "inf" : "-inf"; return num(); }
	std::string newname(const char *pfx) { if (r.chance(1, 4)) return "-"; return strf("%s%u", pfx, (unsigned)r.below(1000)); }

	Op gen_edit(int client) {
		static const char *kinds[] = {"newcol", "addcol", "addcols", "newrow", "addrow", "addrows", "delrow", "delrows", "delsetrows", "delnamedrow", "delnamedrows",
			"delcol", "delcols", "delsetcols", "delnamedcol", "delnamedcols", "chgcoef", "chgcoef", "chgobj", "chgobj", "chgrhs", "chgrhs", "chgsense", "chgsenses", "chgrange", "chgbound", "chgbound", "chgbounds", "chgobjsense"};
		Op o = mk(client, "edit"); std::string w;
		for (int tries = 0; tries < 20; tries++) { w = kinds[r.below(sizeof kinds / sizeof *kinds)]; if (ok("edit:" + w)) break; w = "chgobj"; }
		set(o, "what", w); seti(o, "o", r.below(4));
		if (w == "newcol" || w == "addcol") { set(o, "obj", num()); set(o, "lo", bound_val(false)); set(o, "up", bound_val(true)); set(o, "name", newname("nc")); if (w == "addcol") set(o, "nz", nzlist(3)); }
		else if (w == "addcols") { int c = r.range(0, 2); seti(o, "cnt", c); for (int k = 0; k < 3; k++) { set(o, strf("obj%d", k), num()); set(o, strf("lo%d", k), bound_val(false)); set(o, strf("up%d", k), bound_val(true)); set(o, strf("name%d", k), newname("mc")); set(o, strf("nz%d", k), nzlist(2)); } seti(o, "nullnames", r.chance(1, 5)); if (r.chance(1, 6)) { seti(o, "cnt", r.range(1, 2)); set(o, "name0", "-"); set(o, "name1", "@gen"); seti(o, "nullnames", 0); } }
		else if (w == "newrow") { set(o, "rhs", num()); set(o, "sense", std::string(1, "LGE"[r.below(3)])); set(o, "name", newname("nr")); }
		else if (w == "addrow") { char s = ok("edit:addrow:R") ? "LGER"[r.below(4)] : "LGE"[r.below(3)]; set(o, "rhs", num()); set(o, "sense", std::string(1, s)); set(o, "range", pos()); set(o, "name", newname("ar")); set(o, "nz", nzlist(4)); seti(o, "ranged", r.chance(1, 3)); }
		else if (w == "addrows") { seti(o, "cnt", r.range(0, 2)); seti(o, "ranged", r.chance(1, 2)); for (int k = 0; k < 3; k++) { set(o, strf("rhs%d", k), num()); set(o, strf("sense%d", k), std::string(1, "LGER"[r.below(4)])); set(o, strf("range%d", k), pos()); set(o, strf("name%d", k), newname("mr")); set(o, strf("nz%d", k), nzlist(3)); } if (r.chance(1, 6)) { seti(o, "cnt", r.range(1, 2)); set(o, "name0", "-"); set(o, "name1", "@gen"); } }
		else if (w == "delrow" || w == "delnamedrow") seti(o, "i", r.below(30));
		else if (w == "delcol" || w == "delnamedcol") seti(o, "j", r.below(30));
		else if (starts_with(w, "del")) { std::string l; int k = r.range(1, 3); for (int t = 0; t < k; t++) { if (t) l += ","; l += std::to_string(r.below(30)); } set(o, "list", l); }
		else if (w == "chgcoef") { seti(o, "i", r.below(30)); seti(o, "j", r.below(30)); set(o, "v", r.chance(1, 6) ? "0" : num()); }
		else if (w == "chgobj") { seti(o, "j", r.below(30)); set(o, "v", num()); }
		else if (w == "chgrhs") { seti(o, "i", r.below(30)); set(o, "v", num()); }
		else if (w == "chgsense") { seti(o, "i", r.below(30)); set(o, "sense", std::string(1, ok("edit:chgsense:R") ? "LGER"[r.below(4)] : "LGE"[r.below(3)])); }
		else if (w == "chgsenses") { std::string l, s; int k = r.range(1, 3); for (int t = 0; t < k; t++) { if (t) l += ","; l += std::to_string(r.below(30)); s += ok("edit:chgsense:R") ? "LGER"[r.below(4)] : "LGE"[r.below(3)]; } set(o, "list", l); set(o, "senses", s); }
		else if (w == "chgrange") { seti(o, "i", r.below(30)); set(o, "v", r.chance(1, 6) ? "0" : pos()); }
		else if (w == "chgbound") { seti(o, "j", r.below(30)); set(o, "lu", std::string(1, "LUB"[r.below(3)])); set(o, "v", bound_val(r.chance(1, 2))); }
		else if (w == "chgbounds") { std::string l; int k = r.range(1, 3); for (int t = 0; t < k; t++) { if (t) l += ","; l += std::to_string(r.below(30)); set(o, strf("v%d", t), bound_val(r.chance(1, 2))); } set(o, "list", l); seti(o, "lu0", r.below(3)); }
		else if (w == "chgobjsense") seti(o, "s", r.below(2));
		return o;
	}
	void add_interruption(Op &o) {
		int k = (int)r.below(3);
		if (k == 0 && ok("fault:iter.limit")) { Fault f; f.kind = "iter.limit"; f.a["n"] = std::to_string(r.range(1, 6)); o.faults.push_back(f); }
		else if (k == 1 && ok("fault:clk.limit")) { Fault f; f.kind = "clk.limit"; f.a["at"] = std::to_string(r.below(12)); o.faults.push_back(f); }
		else if (ok("fault:cancel.abort")) { Fault f; f.kind = "cancel.abort"; f.a["at"] = std::to_string(r.below(6)); static const int sk[] = {20, 30, 50, 100}; f.a["skip"] = std::to_string(sk[r.below(4)]); o.faults.push_back(f); }
	}
	void add_float_faults(Op &o, int maxstage) {
		if (r.chance(1, 7)) {   // a float component that is wrong in the same way at every precision (stage -1): the ladder runs out of stages
			// with every claim refuted, and what the driver says then must still not be a verdict it never certified
			Fault b; b.kind = "flt.basis"; b.a["stage"] = "-1"; b.a["mode"] = "swap"; b.a["k"] = std::to_string(r.below(1000)); if (ok("fault:flt.basis")) o.faults.push_back(b);
			Fault v; v.kind = "flt.vec"; v.a["stage"] = "-1"; v.a["which"] = std::vector<std::string>{"x", "pi", "infeas"}[r.below(3)]; v.a["mode"] = std::vector<std::string>{"neg", "one", "huge", "bump"}[r.below(4)]; v.a["idx"] = std::to_string(r.below(40)); if (ok("fault:flt.vec")) o.faults.push_back(v);
			if (r.chance(1, 2)) { Fault s; s.kind = "flt.status"; s.a["stage"] = "-1"; s.a["to"] = std::to_string(r.below(2)); if (r.chance(1, 2)) s.a["alt"] = "1"; if (ok("fault:flt.status")) o.faults.push_back(s); }
			return;
		}
		int k = r.range(1, 3);
		for (int t = 0; t < k; t++) {
			Fault f; int kind = (int)r.below(7); int st = r.range(0, maxstage); f.a["stage"] = std::to_string(st);
			switch (kind) {
			case 0: f.kind = "flt.fail"; break;
			case 1: f.kind = "flt.perturb"; f.a["what"] = std::vector<std::string>{"rhs", "obj", "coef"}[r.below(3)]; f.a["idx"] = std::to_string(r.below(40)); f.a["exp"] = std::to_string(r.range(3, 50)); f.a["neg"] = std::to_string(r.below(2)); break;
			case 2: case 3: f.kind = "flt.status"; f.a["to"] = std::to_string(r.below(7)); break;
			case 4: f.kind = "flt.vec"; f.a["which"] = std::vector<std::string>{"x", "pi", "infeas"}[r.below(3)]; f.a["mode"] = std::vector<std::string>{"zero", "neg", "scale", "one", "huge", "bump"}[r.below(6)]; f.a["idx"] = std::to_string(r.below(40)); break;
			case 5: f.kind = "flt.basis"; f.a["mode"] = r.chance(1, 4) ? "slack" : "swap"; f.a["k"] = std::to_string(r.below(1000)); break;
			default: f.kind = "flt.iter0"; break;
			}
			if (ok("fault:" + f.kind)) o.faults.push_back(f);
		}
	}
	Op gen_solve(int client, const std::string &how_bias) {
		Op o = mk(client, "solve"); seti(o, "o", r.below(4));
		std::string how = how_bias; if (how.empty()) { int k = (int)r.below(10); how = k < 5 ? "exact" : k < 8 ? "primal" : "dual"; }
		set(o, "how", how); seti(o, "algo", r.range(1, 2)); seti(o, "wantx", !r.chance(1, 6)); seti(o, "wanty", !r.chance(1, 6)); seti(o, "wantb", !r.chance(1, 4));
		if (r.chance(1, 4)) seti(o, "warm", r.below(8));
		return o;
	}
	Op gen_param(int client) { Op o = mk(client, "param"); seti(o, "o", r.below(4)); static const char *w[] = {"pprice", "dprice", "display", "scaling", "precision"}; std::string what = w[r.below(5)]; if (what == "display" && !ok("param:display")) what = "pprice";
		if (r.chance(1, 10) && ok("param:limits")) { static const char *lw[] = {"maxiter", "maxtime", "objulim", "objllim"}; what = lw[r.below(4)]; } set(o, "what", what); seti(o, "v", r.below(12)); return o; }
	Op gen_invalid(int client) {
		if (r.chance(1, 3)) { Op o = mk(client, "qinvalid"); seti(o, "o", r.below(4)); seti(o, "v", r.below(7 * 18 * 4)); return o; }
		if (r.chance(1, 8)) { Op o = mk(client, "param"); seti(o, "o", r.below(4)); Fault f; f.kind = "api.invalid"; f.a["v"] = std::to_string(r.below(72)); o.faults.push_back(f); return o; }
		if (r.chance(1, 7) && ok("invalid:loadbasis")) { Op o = mk(client, "basis"); seti(o, "o", r.below(4)); set(o, "what", "load"); Fault f; f.kind = "api.invalid"; f.a["v"] = std::to_string(r.below(8000)); o.faults.push_back(f); return o; }
		Op o = gen_edit(client); Fault f; f.kind = "api.invalid"; f.a["v"] = std::to_string(r.below(7 * 2 * 5 * 3)); o.faults.push_back(f); return o;
	}
	Op gen_create(int client, int nlps) { Op o = mk(client, "create"); seti(o, "lp", r.below(nlps ? nlps : 1)); static const char *h[] = {"build", "build1", "colwise", "load", "build"}; set(o, "how", r.chance(1, 30) ? "empty" : h[r.below(5)]); return o; }
};

void common_knobs(Gen &g) {
	Plan &p = g.p;
	p.knobs["clk.step_us"] = std::to_string(std::vector<int>{0, 1, 1, 10, 1000, 200000}[g.r.below(6)]);
	p.knobs["mem.fill"] = std::to_string(g.r.below(4) ? 1 + g.r.below(250) : 0);
	if (g.faults && g.r.chance(1, 2) && g.ok("fault:lu.refactor")) p.knobs["lu.refactor_every"] = std::to_string(g.r.range(1, 5));
}

// one or two clients working on a few objects through arbitrary histories
void profile_hist(Gen &g, bool invalid_heavy, bool copy_heavy) {
	Plan &p = g.p; Rng &r = g.r;
	int nl = r.range(1, 2); for (int k = 0; k < nl; k++) p.lps.push_back(g.gen_lp(k, g.longrun ? 9 : 5, g.longrun ? 9 : 5));
	int nclients = copy_heavy ? 2 : r.range(1, 2);
	int nops = g.longrun ? r.range(80, 300) : r.range(6, 45);
	for (int c = 0; c < nclients; c++) p.ops.push_back(g.gen_create(c, nl));
	bool want_invalid = invalid_heavy || r.chance(1, 4); bool want_solves = !r.chance(1, 6);
	for (int k = 0; k < nops; k++) {
		int c = (int)r.below(nclients); int d = (int)r.below(100);
		if (invalid_heavy && d < 35) p.ops.push_back(g.gen_invalid(c));
		else if (d < 50) p.ops.push_back(g.gen_edit(c));
		else if (d < 70 && want_solves) { Op o = g.gen_solve(c, ""); if (g.faults && r.chance(2, 5)) g.add_interruption(o); if (g.faults && o.s("how") == "exact" && r.chance(1, 6)) g.add_float_faults(o, 2); p.ops.push_back(o); }
		else if (d < 75 || (copy_heavy && d < 85)) { Op o = g.mk(c, "copy"); g.seti(o, "o", r.below(4)); g.seti(o, "to", r.below(nclients)); p.ops.push_back(o); }
		else if (d < 88 && !copy_heavy && d >= 85) { Op o = g.mk(c, "free"); g.seti(o, "o", r.below(4)); p.ops.push_back(o); }
		else if (d < 90) { Op o = g.mk(c, "basis"); g.seti(o, "o", r.below(4)); static const char *w[] = {"get", "get", "make", "load", "loadarray"}; std::string what = w[r.below(5)]; if (!g.ok("basis:" + what)) what = "get"; g.set(o, "what", what); g.seti(o, "pat", r.below(100000)); g.seti(o, "k", r.below(8)); p.ops.push_back(o); }
		else if (d < 93) p.ops.push_back(g.gen_param(c));
		else if (d < 95 && g.ok("verdict")) { Op o = g.mk(c, "verdict"); g.seti(o, "o", r.below(4)); g.set(o, "which", std::vector<std::string>{"optimal", "dual", "verify"}[r.below(3)]); g.seti(o, "pat", r.below(100000)); if (r.chance(1, 2)) g.seti(o, "k", r.below(8)); g.seti(o, "prestep", r.below(2)); p.ops.push_back(o); }
		else if (d < 97 && g.ok("tableau")) { Op o = g.mk(c, "tableau"); g.seti(o, "o", r.below(4)); p.ops.push_back(o); }
		else if (d < 98 && g.ok("pivotin")) { Op o = g.mk(c, "pivotin"); g.seti(o, "o", r.below(4)); g.set(o, "what", r.chance(1, 2) ? "row" : "col"); g.seti(o, "a", r.below(50)); g.seti(o, "cnt", r.range(1, 3)); p.ops.push_back(o); }
		else if (want_invalid) p.ops.push_back(g.gen_invalid(c));
		else if (r.chance(1, 3)) p.ops.push_back(g.gen_create(c, nl));
		else p.ops.push_back(g.gen_edit(c));
	}
	if (want_solves) p.ops.push_back(g.gen_solve(0, ""));
	p.knobs["indep"] = copy_heavy ? (r.chance(1, 2) ? "2" : "1") : "1";
}

// resolve: one object, tight alternation of direct (warm-started) solves and small edits (C05, C17): everything the
// simplex keeps between calls - LU factors, basis, pricing norms, work arrays - meets a problem that changed under it
void profile_resolve(Gen &g) {
	Plan &p = g.p; Rng &r = g.r;
	bool fileobj = r.chance(1, 3) && g.ok("resolve:fileobj");
	bool pure_add = fileobj && r.chance(2, 3);
	p.lps.push_back(pure_add ? g.gen_lp(0, 9, 16, 3, 8) : fileobj ? g.gen_lp(0, 9, 9, 3, 4) : g.gen_lp(0, g.longrun ? 9 : 6, g.longrun ? 9 : 6));
	Op cr = g.gen_create(0, 1); if (cr.s("how") == "empty") g.set(cr, "how", "load"); p.ops.push_back(cr);
	// one plan in three works on an object that came out of a file reader (the readers build problems their own way - with a row-wise copy of
	// the matrix next to the column-wise one - and every edit has to keep such an object consistent too)
	long oi = 0;
	if (fileobj) { Op w = g.mk(0, "write"); g.seti(w, "o", 0); g.set(w, "fmt", r.chance(1, 2) ? "LP" : "MPS"); g.set(w, "via", "path"); g.set(w, "path", "seed0"); g.seti(w, "comp", 0); p.ops.push_back(w);
		Op rd = g.mk(0, "read"); g.seti(rd, "pick", -1); g.set(rd, "via", r.chance(1, 4) ? "reader" : "path"); p.ops.push_back(rd); oi = 1;
		// the edits that change the matrix rebuild the row-wise copy; the ones that only touch a logical column or the vectors come first here
		int k = r.range(1, 3); for (int t = 0; t < k; t++) { Op e = g.mk(0, "edit"); g.seti(e, "o", 1); static const char *w[] = {"chgsense", "chgsense", "chgsenses", "chgrange", "chgrhs", "chgbound", "chgobj"}; std::string what = w[pure_add ? 4 + r.below(3) : r.below(7)];   /* a change of sense rebuilds the row copy too: the generation rounds want the reader's own */ g.set(e, "what", what);
			g.seti(e, "i", r.below(30)); g.seti(e, "j", r.below(30)); g.set(e, "v", what == "chgrange" ? g.pos() : g.num()); g.set(e, "lu", std::string(1, "LUB"[r.below(3)])); g.set(e, "sense", std::string(1, "LGER"[r.below(4)])); g.set(e, "list", std::to_string(r.below(30)) + "," + std::to_string(r.below(30))); g.set(e, "senses", std::string(1, "LGER"[r.below(4)]) + std::string(1, "LGER"[r.below(4)])); p.ops.push_back(e); }
		if (r.chance(1, 2)) { Op sc = g.mk(0, "param"); g.seti(sc, "o", 1); g.set(sc, "what", "scaling"); g.seti(sc, "v", 0); p.ops.push_back(sc); } }
	int np = r.range(0, 2); for (int k = 0; k < np; k++) { Op o = g.gen_param(0); g.seti(o, "o", oi); p.ops.push_back(o); }
	// every pricing rule keeps its own state between calls (norms, reference frames, buckets): half of the plans leave the defaults
	if (r.chance(1, 2)) { Op o = g.mk(0, "param"); g.seti(o, "o", oi); g.set(o, "what", "dprice"); g.seti(o, "v", r.below(4)); p.ops.push_back(o); }
	if (r.chance(1, 2)) { Op o = g.mk(0, "param"); g.seti(o, "o", oi); g.set(o, "what", "pprice"); g.seti(o, "v", r.below(4)); p.ops.push_back(o); }
	int rounds = g.longrun ? r.range(10, 40) : r.range(2, 8);
	bool no_exact = false;   // the exact driver's verdict functions drop the row copy: not before and not inside the generation rounds
	auto direct = [&]() { Op o = g.gen_solve(0, !no_exact && r.chance(1, 8) ? "exact" : r.chance(1, 2) ? "primal" : "dual"); g.seti(o, "o", oi); o.a.erase("warm"); return o; };
	no_exact = pure_add; p.ops.push_back(direct());
	// column generation / cutting planes on a model file: the first rounds of half of the file-object plans only add columns (or only rows), so
	// that whatever the reader built next to the column matrix is still the reader's when the simplex runs again, warm, on the grown problem
	bool pure_cols = r.chance(2, 3); int pure_rounds = pure_add ? r.range(1, 3) : 0;
	for (int k = 0; k < rounds; k++) {
		if (k < pure_rounds) {
			int kk = pure_cols ? r.range(2, 4) : r.range(1, 3);   // several columns at once: the ones that do not enter first are priced again after every pivot
			for (int t = 0; t < kk; t++) { Op e; for (int q = 0; q < 80; q++) { e = g.gen_edit(0); std::string w = e.s("what"); if (pure_cols ? (w == "addcol" || w == "addcols") : (w == "addrow" || w == "addrows")) break; } g.seti(e, "o", oi);
				/* a generated column is one that prices out: its cost has the sign of the objective's direction more often than not */
				if (pure_cols && r.chance(5, 6)) { std::string c = p.lps[0].objsense > 0 ? "-" + g.pos() : g.pos(); if (e.s("what") == "addcol") { g.set(e, "obj", c); g.set(e, "lo", "0"); g.set(e, "up", "inf"); } else { g.set(e, "obj0", c); g.set(e, "lo0", "0"); g.set(e, "up0", "inf"); } }
				p.ops.push_back(e); }
			p.ops.push_back(direct());
			if (r.chance(1, 4) && g.ok("tableau")) { Op t = g.mk(0, "tableau"); g.seti(t, "o", oi); p.ops.push_back(t); }
			if (k + 1 == pure_rounds) no_exact = false;
			continue;
		}
		int ne = r.chance(2, 3) ? 1 : r.range(2, 3);
		// the one edit after which a solution may legitimately survive is a row deletion (basic rows only): make it the first thing after a
		// solve often enough that every kind of row (ranged at either end, equality, basic, non-basic) gets deleted with a live cache
		if (r.chance(1, 5)) {
			// ... and sometimes another basis is loaded in between: the rows that are basic in it are not the rows that were basic when the solution was computed
			if (r.chance(1, 3)) { Op mkb = g.mk(0, "basis"); g.seti(mkb, "o", oi); g.set(mkb, "what", "make"); g.seti(mkb, "pat", r.chance(1, 3) ? -1 : (long)r.below(100000)); p.ops.push_back(mkb); Op ld = g.mk(0, "basis"); g.seti(ld, "o", oi); g.set(ld, "what", r.chance(1, 2) ? "load" : "loadarray"); g.seti(ld, "k", -1); p.ops.push_back(ld); }
			Op d = g.mk(0, "edit"); g.seti(d, "o", oi); g.set(d, "what", std::vector<std::string>{"delrow", "delnamedrow", "delrows", "delsetrows"}[r.below(4)]); g.seti(d, "i", r.below(30)); g.set(d, "list", std::to_string(r.below(30)));
			if (r.chance(1, 2)) g.set(d, "prefer", std::vector<std::string>{"upper", "upper", "lower", "basic"}[r.below(4)]);   // by basis status: a ranged row tight at its upper end is rare among random picks
			p.ops.push_back(d); }
		for (int e = 0; e < ne; e++) { Op ed = g.gen_edit(0); g.seti(ed, "o", oi);
			if (r.chance(1, 2)) { static const char *w[] = {"chgcoef", "chgcoef", "chgcoef", "chgobj", "chgrhs", "chgbound", "chgsense", "chgrange"}; Op e2 = g.mk(0, "edit"); g.seti(e2, "o", oi); std::string what = w[r.below(8)]; g.set(e2, "what", what);
				g.seti(e2, "i", r.below(30)); g.seti(e2, "j", r.below(30)); g.set(e2, "v", r.chance(1, 6) ? "0" : what == "chgrange" ? g.pos() : g.num()); g.set(e2, "lu", std::string(1, "LUB"[r.below(3)])); g.set(e2, "sense", std::string(1, "LGER"[r.below(4)])); ed = e2; }
			p.ops.push_back(ed); }
		if (r.chance(1, 6)) {   // the cutting-plane step: k rows in, k columns out (or the reverse) - the simplex column count stays, the row count moves
			int kk = r.range(1, 2); bool rows_in = r.chance(2, 3);
			for (int t = 0; t < kk; t++) { Op e; for (int q = 0; q < 60; q++) { e = g.gen_edit(0); std::string w = e.s("what"); if (rows_in ? (w == "addrow" || w == "newrow") : (w == "addcol" || w == "newcol")) break; } g.seti(e, "o", oi); p.ops.push_back(e); }
			for (int t = 0; t < kk; t++) { Op e = g.mk(0, "edit"); g.seti(e, "o", oi); g.set(e, "what", rows_in ? "delcol" : "delrow"); g.seti(e, "i", r.below(30)); g.seti(e, "j", r.below(30)); p.ops.push_back(e); }
		}
		if (r.chance(1, 8)) { Op o = g.gen_param(0); g.seti(o, "o", oi); p.ops.push_back(o); }
		// rows (columns) go in while a factorization is live, the exact driver settles the problem without the rational simplex, and then
		// somebody asks the rational simplex for a pivot: whatever it kept from before the additions is of the wrong size
		if (r.chance(1, 10)) { int kk = r.range(1, 2); for (int t = 0; t < kk; t++) { Op e; for (int q = 0; q < 60; q++) { e = g.gen_edit(0); std::string w = e.s("what"); if (w == "addrow" || w == "newrow" || w == "addcol" || w == "addrows") break; } g.seti(e, "o", oi); p.ops.push_back(e); }
			Op s = g.gen_solve(0, "exact"); g.seti(s, "o", oi); s.a.erase("warm"); p.ops.push_back(s);
			Op pv = g.mk(0, "pivotin"); g.seti(pv, "o", oi); g.set(pv, "what", r.chance(1, 2) ? "row" : "col"); g.seti(pv, "a", r.below(50)); g.seti(pv, "cnt", r.range(1, 2)); p.ops.push_back(pv);
			if (g.ok("tableau")) { Op t = g.mk(0, "tableau"); g.seti(t, "o", oi); p.ops.push_back(t); } }
		// the application keeps its own basis (column generation, cutting planes): a basis of the present dimensions is made and loaded, so
		// the next solve takes the "basis passed in, pricing information kept" path with whatever the edits left of the norms
		if (r.chance(1, 4)) { Op mkb = g.mk(0, "basis"); g.seti(mkb, "o", oi); g.set(mkb, "what", "make"); g.seti(mkb, "pat", r.chance(1, 3) ? -1 : (long)r.below(100000)); p.ops.push_back(mkb);
			Op ld = g.mk(0, "basis"); g.seti(ld, "o", oi); g.set(ld, "what", r.chance(1, 2) ? "load" : "loadarray"); g.seti(ld, "k", -1); p.ops.push_back(ld); }
		Op s = direct(); if (g.faults && r.chance(1, 4)) g.add_interruption(s); p.ops.push_back(s);
		if (r.chance(1, 5) && g.ok("tableau")) { Op t = g.mk(0, "tableau"); g.seti(t, "o", oi); p.ops.push_back(t); }
		if (r.chance(1, 10) && g.ok("pivotin")) { Op o = g.mk(0, "pivotin"); g.seti(o, "o", oi); g.set(o, "what", r.chance(1, 2) ? "row" : "col"); g.seti(o, "a", r.below(50)); g.seti(o, "cnt", r.range(1, 3)); p.ops.push_back(o); }
	}
	p.knobs["indep"] = "0";
}

// grow: one object pushed across the internal growth thresholds (100 rows, 100 columns, 1000 nonzeros) by many small
// additions, with the other edits, a few solves and copies in between (C06, C17)
void profile_grow(Gen &g) {
	Plan &p = g.p; Rng &r = g.r;
	p.lps.push_back(g.gen_lp(0, 5, 5));
	Op cr = g.gen_create(0, 1); p.ops.push_back(cr);
	int nops = r.range(90, 200); bool rows_first = r.chance(1, 2);
	for (int k = 0; k < nops; k++) {
		int d = (int)r.below(100);
		if (d < 78) { static const char *addr[] = {"newrow", "addrow", "addrows", "addrows"}, *addc[] = {"newcol", "addcol", "addcols", "addcols"};
			bool row = rows_first ? (k < nops / 2 ? r.chance(4, 5) : r.chance(1, 3)) : r.chance(1, 2);
			Op e; for (int t = 0; t < 40; t++) { e = g.gen_edit(0); std::string w = e.s("what"); bool hit = false; for (int q = 0; q < 4; q++) if (w == (row ? addr[q] : addc[q])) hit = true; if (hit) break; }
			g.seti(e, "o", 0); if (e.has("cnt")) g.seti(e, "cnt", 2); p.ops.push_back(e); }
		else if (d < 90) { Op e = g.gen_edit(0); g.seti(e, "o", 0); p.ops.push_back(e); }
		else if (d < 94) { Op s = g.gen_solve(0, r.chance(1, 2) ? "dual" : "primal"); g.seti(s, "o", 0); if (g.faults && r.chance(1, 3)) g.add_interruption(s); p.ops.push_back(s); }
		else if (d < 96) { Op o = g.mk(0, "copy"); g.seti(o, "o", 0); g.seti(o, "to", 0); p.ops.push_back(o); }
		else if (d < 98 && g.ok("tableau")) { Op t = g.mk(0, "tableau"); g.seti(t, "o", 0); p.ops.push_back(t); }
		else { Op o = g.gen_param(0); g.seti(o, "o", 0); p.ops.push_back(o); }
	}
	if (r.chance(1, 2)) { Op s = g.gen_solve(0, "exact"); g.seti(s, "o", 0); p.ops.push_back(s); }
	p.knobs["indep"] = "0"; p.knobs["fresh"] = "0";
}

// bases: one small LP, many bases - made from patterns (every mix of basic set and at-lower/at-upper/free statuses) or handed
// back by solves - put to the exact verdict functions and to warm-started solves (C12)
void profile_bases(Gen &g) {
	Plan &p = g.p; Rng &r = g.r;
	p.lps.push_back(g.gen_lp(0, 5, 5, 1, 1));
	Op cr = g.gen_create(0, 1); if (cr.s("how") == "empty") g.set(cr, "how", "build"); p.ops.push_back(cr);
	if (r.chance(2, 3)) { Op s = g.gen_solve(0, r.chance(1, 2) ? "exact" : ""); g.seti(s, "o", 0); g.seti(s, "wantb", 1); p.ops.push_back(s); }
	int n = r.range(6, 24);
	for (int k = 0; k < n; k++) {
		int d = (int)r.below(10);
		if (d < 6) { Op o = g.mk(0, "verdict"); g.seti(o, "o", 0); g.set(o, "which", std::vector<std::string>{"optimal", "dual", "verify"}[r.below(3)]); g.seti(o, "pat", r.below(100000)); if (r.chance(1, 3)) g.seti(o, "k", r.below(8)); g.seti(o, "prestep", r.below(2)); p.ops.push_back(o); }
		else if (d < 7) { Op o = g.mk(0, "basis"); g.seti(o, "o", 0); g.set(o, "what", "make"); g.seti(o, "pat", r.below(100000)); p.ops.push_back(o); }
		else if (d < 9) { Op o = g.mk(0, "basis"); g.seti(o, "o", 0); g.set(o, "what", r.chance(1, 2) ? "load" : "loadarray"); g.seti(o, "k", r.below(8)); g.seti(o, "pat", r.below(100000)); p.ops.push_back(o);
			Op s = g.gen_solve(0, r.chance(1, 3) ? "exact" : r.chance(1, 2) ? "primal" : "dual"); g.seti(s, "o", 0); g.seti(s, "wantb", 1); if (r.chance(1, 2)) g.seti(s, "warm", r.below(8)); p.ops.push_back(s); }
		else { Op e = g.gen_edit(0); g.seti(e, "o", 0); p.ops.push_back(e); }
	}
	p.knobs["indep"] = "0";
}

// one LP, one or two objects, configuration and solves, float faults (C01/C02/C03/C12)
void profile_solve(Gen &g) {
	Plan &p = g.p; Rng &r = g.r;
	p.lps.push_back(g.gen_lp(0, g.longrun ? 10 : 6, g.longrun ? 10 : 6));
	p.ops.push_back(g.gen_create(0, 1));
	int rounds = r.range(1, 3);
	for (int k = 0; k < rounds; k++) {
		if (r.chance(1, 2)) p.ops.push_back(g.gen_param(0));
		if (r.chance(1, 4)) { Op o = g.mk(0, "basis"); g.seti(o, "o", 0); g.set(o, "what", "make"); g.seti(o, "pat", r.below(100000)); p.ops.push_back(o); }
		Op o = g.gen_solve(0, r.chance(3, 4) ? "exact" : "");
		if (g.faults) { int d = (int)r.below(10); if (d < 6 && o.s("how") == "exact") g.add_float_faults(o, r.chance(1, 5) ? 8 : 2); else if (d < 8) g.add_interruption(o); }
		p.ops.push_back(o);
		if (r.chance(1, 3) && g.ok("tableau")) { Op t = g.mk(0, "tableau"); g.seti(t, "o", 0); p.ops.push_back(t); }
		if (r.chance(1, 3)) { Op e = g.gen_edit(0); p.ops.push_back(e); }
	}
	p.ops.push_back(g.gen_solve(0, "exact"));
	p.knobs["indep"] = "0";
}

// partial: one wide (more than 50 non-basic columns) or tall (more than 50 rows) LP driven directly with the rational simplex in
// several configurations - partial pricing with several groups, the other rules, scaling on/off, warm starts (C04, C01)
void profile_partial(Gen &g) {
	Plan &p = g.p; Rng &r = g.r;
	bool wide = r.chance(2, 3);
	// enough rows (columns) besides the many columns (rows) for the simplex to make tens of pivots: what partial pricing skips only shows
	// when a column (row) that was unattractive at the start of a phase has to enter (leave) later
	bool deep = r.chance(2, 3);
	p.lps.push_back(wide ? g.gen_lp(0, deep ? 110 : 130, deep ? 24 : 6, 56, deep ? 8 : 2) : g.gen_lp(0, deep ? 24 : 6, deep ? 110 : 120, deep ? 8 : 2, 56));
	int nc = r.range(3, 5); std::vector<std::vector<Op>> per(nc);
	for (int c = 0; c < nc; c++) {
		Op cr = g.mk(c, "create"); g.seti(cr, "lp", 0); static const char *h[] = {"build", "build1", "colwise", "load"}; g.set(cr, "how", h[r.below(4)]); per[c].push_back(cr);
		bool partial = c < 2 || r.chance(1, 2);
		{ Op o = g.mk(c, "param"); g.seti(o, "o", 0); g.set(o, "what", wide ? "pprice" : "dprice"); g.seti(o, "v", partial ? (wide ? 3 : 2) : (long)r.below(4)); per[c].push_back(o); }
		{ Op o = g.mk(c, "param"); g.seti(o, "o", 0); g.set(o, "what", "scaling"); g.seti(o, "v", c == 0 ? 0 : (long)r.below(2)); per[c].push_back(o); }
		if (c == 1 || r.chance(1, 3)) { Op o = g.mk(c, "basis"); g.seti(o, "o", 0); g.set(o, "what", "make"); g.seti(o, "pat", r.below(100000)); per[c].push_back(o);
			Op l = g.mk(c, "basis"); g.seti(l, "o", 0); g.set(l, "what", r.chance(1, 2) ? "load" : "loadarray"); g.seti(l, "k", 0); per[c].push_back(l); }
		int ns = r.range(1, 2);
		for (int k = 0; k < ns; k++) { Op s = g.gen_solve(c, wide ? (k == 0 || r.chance(2, 3) ? "primal" : "dual") : (k == 0 || r.chance(2, 3) ? "dual" : "primal")); g.seti(s, "o", 0); s.a.erase("warm");
			if (g.faults && r.chance(1, 4)) g.add_interruption(s); per[c].push_back(s);
			if (k == 0 && ns > 1 && r.chance(1, 2)) { Op e = g.mk(c, "edit"); g.seti(e, "o", 0); g.set(e, "what", "chgobj"); g.seti(e, "j", r.below(200)); g.set(e, "v", g.num()); per[c].push_back(e); } }
	}
	// the edits above would make the clients' LPs differ: keep them only for client-private objects (each client created its own)
	std::vector<size_t> pos(nc, 0); size_t left = 0; for (auto &v : per) left += v.size();
	while (left) { int c = (int)r.below(nc); if (pos[c] >= per[c].size()) continue; p.ops.push_back(per[c][pos[c]++]); left--; }
	p.knobs["indep"] = "0"; p.knobs["fresh"] = "0";
}

// C04: one LP driven by several clients in different configurations, interleaved
void profile_config(Gen &g) {
	Plan &p = g.p; Rng &r = g.r;
	// one LP in eight is wide or tall enough (more than 50 non-basic columns / rows) for partial pricing to have several groups;
	// the reference simplex cannot judge those, the cross-configuration and certificate oracles can
	{ int shape = (int)r.below(16); if (shape == 0) p.lps.push_back(g.gen_lp(0, 120, 5, 56, 2)); else if (shape == 1) p.lps.push_back(g.gen_lp(0, 5, 110, 2, 56)); else p.lps.push_back(g.gen_lp(0, 6, 6)); }
	int nc = r.range(3, 6); std::vector<std::vector<Op>> per(nc);
	for (int c = 0; c < nc; c++) {
		Op cr = g.mk(c, "create"); g.seti(cr, "lp", 0); static const char *h[] = {"build", "build1", "colwise", "load"}; g.set(cr, "how", h[r.below(4)]); per[c].push_back(cr);
		int np = r.range(0, 3); for (int k = 0; k < np; k++) { Op o = g.gen_param(c); g.seti(o, "o", 0); per[c].push_back(o); }
		if ((p.lps[0].cols.size() > 50 || p.lps[0].rows.size() > 50) && c < 2) {   // with several groups to price, make sure partial pricing meets them
			Op o = g.mk(c, "param"); g.seti(o, "o", 0); g.set(o, "what", c == 0 ? "pprice" : "dprice"); g.seti(o, "v", c == 0 ? 3 : 2); per[c].push_back(o);
			if (r.chance(1, 2)) { Op s = g.mk(c, "param"); g.seti(s, "o", 0); g.set(s, "what", "scaling"); g.seti(s, "v", 0); per[c].push_back(s); } }
		if (r.chance(1, 4)) { Op o = g.mk(c, "basis"); g.seti(o, "o", 0); g.set(o, "what", "make"); g.seti(o, "pat", r.below(100000)); per[c].push_back(o); }
		int ns = r.range(1, 3);
		bool big = p.lps[0].cols.size() > 50 || p.lps[0].rows.size() > 50;
		for (int k = 0; k < ns; k++) { Op o = g.gen_solve(c, big ? (c == 0 ? "primal" : c == 1 ? "dual" : r.chance(1, 2) ? "primal" : "dual") : ""); g.seti(o, "o", 0);   // no exact driver on big problems: a ladder walk there costs minutes
			if (g.faults && r.chance(1, 2)) { g.add_interruption(o); per[c].push_back(o); Op pp = g.gen_param(c); g.seti(pp, "o", 0); per[c].push_back(pp); Op o2 = g.gen_solve(c, o.s("how")); g.seti(o2, "o", 0); o2.a.erase("warm"); per[c].push_back(o2); }
			else { if (g.faults && o.s("how") == "exact" && r.chance(1, 3)) g.add_float_faults(o, 2); per[c].push_back(o); } }
	}
	// seeded interleaving (S9)
	std::vector<size_t> pos(nc, 0); size_t left = 0; for (auto &v : per) left += v.size();
	while (left) { int c = (int)r.below(nc); if (pos[c] >= per[c].size()) continue; p.ops.push_back(per[c][pos[c]++]); left--; }
	p.knobs["indep"] = "0"; p.knobs["fresh"] = "0";
}


// io: live objects after histories are written (LP/MPS; path, FILE*, reporter sink; plain/gz/bz2) and read back (C08, C09, C14)
void profile_io(Gen &g, bool damage_heavy) {
	Plan &p = g.p; Rng &r = g.r;
	int nl = r.range(1, 2); for (int k = 0; k < nl; k++) p.lps.push_back(g.gen_lp(k, r.chance(1, 4) ? 10 : 6, 6));
	p.ops.push_back(g.gen_create(0, nl));
	int rounds = r.range(2, 6); int nfile = 0;
	auto io_faults = [&](Op &o, bool writing) {
		if (!g.faults) { if (r.chance(1, 3)) { Fault f; f.kind = "io.chunk"; f.a["n"] = std::to_string(r.range(1, 64)); o.faults.push_back(f); } return; }
		int d = (int)r.below(10);
		if (d < 2) { Fault f; f.kind = "io.open_fail"; f.a["e"] = std::to_string(r.below(5)); o.faults.push_back(f); }
		else if (d < 5 && writing) { Fault f; f.kind = std::vector<std::string>{"io.write_err", "io.short_write", "io.close_err"}[r.below(3)]; f.a["at"] = std::to_string(r.below(600)); o.faults.push_back(f); }
		else if (d < 5) { Fault f; f.kind = "io.read_eio"; f.a["at"] = std::to_string(r.below(600)); o.faults.push_back(f); }
		else if (d < 7) { Fault f; f.kind = "io.chunk"; f.a["n"] = std::to_string(r.range(1, 64)); o.faults.push_back(f); }
	};
	for (int k = 0; k < rounds; k++) {
		int ne = g.longrun ? r.range(4, 12) : r.range(0, 4);
		for (int e = 0; e < ne; e++) { Op ed = g.gen_edit(0);
			// the long arm: histories in which names come and go (the files are written and read by name, the name tables are edited in place)
			if (g.longrun && r.chance(1, 2)) { static const char *w[] = {"delcol", "delnamedcol", "delcols", "delnamedcols", "delrow", "delnamedrow", "newcol", "addcol", "addcols", "newrow", "addrow"}; for (int t = 0; t < 40; t++) { ed = g.gen_edit(0); bool hit = false; for (auto *k : w) if (ed.s("what") == k) hit = true; if (hit) break; } }
			p.ops.push_back(ed); }
		if (r.chance(1, 3)) { Op s = g.gen_solve(0, ""); if (g.faults && r.chance(1, 3)) g.add_interruption(s); p.ops.push_back(s); }
		int d = (int)r.below(10);
		if (damage_heavy) d = r.chance(11, 20) ? 0 : r.chance(4, 9) ? 6 : 8;   // reader profile: 55% library-written problem files, 20% basis files, 25% foreign problem files - all of them damaged
		if (d < 6) {
			Op w = g.mk(0, "write"); g.seti(w, "o", r.below(4)); g.set(w, "fmt", r.chance(1, 2) ? "LP" : "MPS"); g.set(w, "via", std::vector<std::string>{"path", "path", "file", "reporter"}[r.below(4)]);
			g.set(w, "path", strf("f%d", nfile++)); g.seti(w, "comp", r.below(3)); io_faults(w, true); p.ops.push_back(w);
			if (damage_heavy || (g.faults && r.chance(1, 3))) { int nd = r.range(1, 2); for (int t = 0; t < nd; t++) { Op dm = g.mk(0, "damage"); g.seti(dm, "pick", r.below(8)); g.set(dm, "kind", std::vector<std::string>{"torn", "flip", "zero_tail", "block_drop", "block_dup", "token", "token", "torn"}[r.below(8)]); g.seti(dm, "at", r.below(100000)); g.seti(dm, "len", r.below(56)); g.seti(dm, "bit", r.below(8)); p.ops.push_back(dm); } }
			Op rd = g.mk(0, "read"); g.seti(rd, "pick", r.chance(1, 5) ? (long)r.below(6) : -1); g.set(rd, "via", r.chance(1, 3) ? "reader" : "path"); io_faults(rd, false); p.ops.push_back(rd);
			if (r.chance(1, 6)) { Op ms = g.mk(0, "read"); g.set(ms, "fmt", r.chance(1, 2) ? "LP" : "MPS"); g.set(ms, "via", "path"); g.seti(ms, "missing", r.chance(1, 2) ? 5 : r.range(300, 900)); if (r.chance(1, 2)) g.seti(ms, "sweep", 1 + r.below(6)); p.ops.push_back(ms); }
			if (r.chance(1, 2)) {   // chain: write the re-read object in the other format and read again
				Op w2 = g.mk(0, "write"); g.seti(w2, "o", -1); g.set(w2, "fmt", w.s("fmt") == "LP" ? "MPS" : "LP"); g.set(w2, "via", "path"); g.set(w2, "path", strf("f%d", nfile++)); g.seti(w2, "comp", r.below(3)); p.ops.push_back(w2);
				Op r2 = g.mk(0, "read"); g.seti(r2, "pick", -1); g.set(r2, "via", "path"); p.ops.push_back(r2);
			}
		} else if (d < 8 && !damage_heavy && r.chance(1, 3)) {
			// basis-file warm start: solve, save the basis, solve a tilted problem (the object now holds another factorized basis), put the
			// objective back, read-and-load the file - the saved basis is optimal again and the next solve has to start from it (C14)
			long oi = r.below(4); std::string how = r.chance(1, 2) ? "primal" : "dual"; std::string path = strf("b%d", nfile++);
			{ Op s1 = g.gen_solve(0, how); g.seti(s1, "o", oi); s1.a.erase("warm"); p.ops.push_back(s1); }
			{ Op b = g.mk(0, "wbasis"); g.seti(b, "o", oi); g.set(b, "path", path); g.seti(b, "comp", 0); g.set(b, "src", "own"); p.ops.push_back(b); }
			long j = r.below(30); { Op e = g.mk(0, "edit"); g.seti(e, "o", oi); g.set(e, "what", "chgobj"); g.seti(e, "j", j); g.set(e, "v", g.num()); g.seti(e, "save", 1); p.ops.push_back(e); }
			{ Op s2 = g.gen_solve(0, r.chance(1, 2) ? "primal" : "dual"); g.seti(s2, "o", oi); s2.a.erase("warm"); p.ops.push_back(s2); }
			{ Op e = g.mk(0, "edit"); g.seti(e, "o", oi); g.set(e, "what", "chgobj"); g.seti(e, "j", j); g.set(e, "v", "@"); p.ops.push_back(e); }
			{ Op rb = g.mk(0, "rbasis"); g.seti(rb, "o", oi); g.set(rb, "path", path); g.seti(rb, "comp", 0); g.set(rb, "how", "load"); p.ops.push_back(rb); }
		} else if (d < 8) {
			bool foreign = g.ok("fbasis") && (damage_heavy ? r.chance(1, 2) : g.faults && r.chance(1, 4));   // a basis file from a foreign producer: other layouts, and (3 in 4) files that are well-formed line by line but describe no basis
			Op b = g.mk(0, foreign ? "fbasis" : "wbasis"); g.seti(b, "o", r.below(4)); g.set(b, "path", strf("b%d", nfile++)); g.seti(b, "comp", r.chance(1, 4) ? r.below(3) : 0);
			if (foreign) { g.seti(b, "pat", r.below(100000)); g.seti(b, "style", r.below(1000)); g.seti(b, "mal", r.chance(1, 4) ? 0 : r.range(1, 12)); }
			else { g.set(b, "src", r.chance(1, 2) ? "own" : "given"); g.seti(b, "k", r.below(8)); io_faults(b, true); }
			p.ops.push_back(b);
			if (!foreign && (damage_heavy || (g.faults && r.chance(1, 4)))) { Op dm = g.mk(0, "damage"); g.seti(dm, "pick", r.below(8)); g.set(dm, "kind", std::vector<std::string>{"torn", "flip", "zero_tail", "token", "token", "block_dup"}[r.below(damage_heavy ? 6 : 3)]); g.seti(dm, "at", r.below(100000)); g.seti(dm, "len", r.below(56)); g.seti(dm, "bit", r.below(8)); p.ops.push_back(dm); }
			Op rb = g.mk(0, "rbasis"); g.seti(rb, "o", b.i("o")); g.seti(rb, "pick", foreign ? -2 : (long)r.below(8)); g.set(rb, "how", r.chance(1, 2) ? "read" : "load"); if (r.chance(1, 12)) g.seti(rb, "missing", 1); io_faults(rb, false); p.ops.push_back(rb);
			if (r.chance(1, 2)) p.ops.push_back(g.gen_solve(0, ""));
		} else {
			Op f = g.mk(0, "foreign"); if (r.chance(1, 2)) g.seti(f, "o", r.below(4)); else g.seti(f, "lp", r.below(nl)); g.set(f, "fmt", r.chance(1, 2) ? "LP" : "MPS"); g.set(f, "path", strf("f%d", nfile++)); g.seti(f, "comp", r.below(3)); g.seti(f, "style", r.below(1000));
			if (f.s("fmt") == "MPS" && r.chance(1, 3)) { g.seti(f, "badnames", 1 + r.below(50)); if (r.chance(1, 2)) g.seti(f, "style", 1 + 12 * r.below(83)); }   // MPS names are free text: a MIP model's x[1,2] (integer, half of the time) has to survive the LP writer's name repair
			if ((damage_heavy || g.faults) && r.chance(1, 3) && g.ok("foreign:mal")) g.seti(f, "mal", r.range(1, 60));   // structurally malformed on purpose
			p.ops.push_back(f);
			if (damage_heavy || (g.faults && r.chance(1, 2))) { Op dm = g.mk(0, "damage"); g.seti(dm, "pick", r.below(8)); g.set(dm, "kind", std::vector<std::string>{"torn", "flip", "token", "token", "block_dup"}[r.below(5)]); g.seti(dm, "at", r.below(100000)); g.seti(dm, "len", r.below(56)); g.seti(dm, "bit", r.below(8)); p.ops.push_back(dm); }
			Op rd = g.mk(0, "read"); g.seti(rd, "pick", -1); g.set(rd, "via", r.chance(1, 3) ? "reader" : "path"); io_faults(rd, false); p.ops.push_back(rd);
			bool longfrac = f.has("mal") && f.i("mal") % 16 == 15;   // the long fractions only hurt when they meet on one line of an LP file
			if (r.chance(1, 2) || f.has("badnames") || longfrac) {   // what was read from a foreign producer (integer marks, odd layouts, names the LP format cannot spell) goes through the library's own writers
				Op w2 = g.mk(0, "write"); g.seti(w2, "o", -1); g.set(w2, "fmt", r.chance(1, 2) && !f.has("badnames") && !longfrac ? "MPS" : "LP"); g.set(w2, "via", "path"); g.set(w2, "path", strf("f%d", nfile++)); g.seti(w2, "comp", r.below(3)); p.ops.push_back(w2);
				Op r2 = g.mk(0, "read"); g.seti(r2, "pick", -1); g.set(r2, "via", "path"); p.ops.push_back(r2);
			}
		}
	}
	p.knobs["indep"] = "0"; p.knobs["fresh"] = "0";
}


// lu: component-level history on mpq_ILLfactor_* (C13)
void profile_lu(Gen &g) {
	Plan &p = g.p; Rng &r = g.r;
	int rounds = r.range(1, 3);
	for (int k = 0; k < rounds; k++) {
		Op f = g.mk(0, "lu"); g.set(f, "what", "factor"); g.seti(f, "dim", r.below(14)); g.seti(f, "fam", r.below(6)); g.seti(f, "seed", r.below(100000)); g.seti(f, "num", r.below(3)); if (r.chance(1, 3)) g.seti(f, "zeros", r.range(1, 2));
		if (r.chance(1, 2)) g.seti(f, "etamax", r.range(1, 12)); if (r.chance(1, 3)) g.seti(f, "maxk", r.range(1, 30)); if (r.chance(1, 3)) g.seti(f, "p", r.range(1, 8));
		if (r.chance(1, 2)) g.seti(f, "densemin", r.range(1, 10)); if (r.chance(1, 2)) g.seti(f, "spacemul", r.below(40)); if (r.chance(1, 3)) g.seti(f, "densefract", r.below(19));
		p.ops.push_back(f);
		int n = g.longrun ? r.range(40, 150) : r.range(3, 40);
		for (int t = 0; t < n; t++) { Op o = g.mk(0, "lu"); int d = (int)r.below(10);
			if (d < 5) { g.set(o, "what", "update"); g.seti(o, "pos", r.below(14)); g.seti(o, "col", r.below(20)); g.seti(o, "mutate", r.chance(1, 2)); g.seti(o, "seed", r.below(100000)); g.seti(o, "num", r.below(3)); }
			else { g.set(o, "what", d < 8 ? "ftran" : "btran"); g.seti(o, "seed", r.below(100000)); g.seti(o, "num", r.below(3)); }
			p.ops.push_back(o); }
	}
	p.knobs["indep"] = "0";
}


// cli: esolver invocations on files written by the library (C19)
void profile_cli(Gen &g) {
	Plan &p = g.p; Rng &r = g.r;
	int nl = r.range(1, 2); for (int k = 0; k < nl; k++) p.lps.push_back(g.gen_lp(k, 6, 6));
	p.ops.push_back(g.gen_create(0, nl));
	int rounds = r.range(1, 3); int nfile = 0;
	for (int k = 0; k < rounds; k++) {
		int ne = r.range(0, 3); for (int e = 0; e < ne; e++) p.ops.push_back(g.gen_edit(0));
		Op w = g.mk(0, "write"); g.seti(w, "o", r.below(3)); g.set(w, "fmt", r.chance(1, 2) ? "LP" : "MPS"); g.set(w, "via", "path"); g.set(w, "path", strf("in%d", nfile++)); g.seti(w, "comp", r.below(3));
		if (r.chance(1, 4) && g.ok("cli:foreign")) { w.kind = "foreign"; g.seti(w, "style", r.below(1000)); w.a.erase("via"); }   // input from another producer: the text denotes the model it was rendered from
		p.ops.push_back(w);
		if (g.faults && r.chance(1, 3)) { Op dm = g.mk(0, "damage"); g.seti(dm, "pick", r.below(8)); g.set(dm, "kind", std::vector<std::string>{"torn", "flip", "token", "zero_tail", "block_dup"}[r.below(5)]); g.seti(dm, "at", r.below(100000)); g.seti(dm, "len", r.below(56)); g.seti(dm, "bit", r.below(8)); p.ops.push_back(dm); }
		int runs = r.range(1, 2);
		for (int t = 0; t < runs; t++) {
			Op e = g.mk(0, "esolver"); g.seti(e, "pick", -1); g.seti(e, "forceL", r.below(2)); g.seti(e, "solcomp", r.chance(1, 3) ? r.below(3) : 0);
			if (r.chance(1, 2)) g.seti(e, r.chance(1, 2) ? "p" : "d", r.below(4)); g.seti(e, "S", r.chance(1, 4)); if (r.chance(1, 3)) g.seti(e, "P", r.below(4));
			g.seti(e, "b", t == 0 && r.chance(1, 2)); g.seti(e, "B", t == 1);
			if (r.chance(1, 15)) g.seti(e, "missing", 1);
			if (r.chance(1, 12)) g.seti(e, "longsol", 1 + r.below(400)); if (r.chance(1, 8)) g.seti(e, "hibyte", 1 + r.below(2));   /* bytes above 127 / blanks in the input path */
			if (g.faults && r.chance(1, 8)) { Fault f; f.kind = "io.sol_open_fail"; f.a["e"] = std::to_string(r.below(5)); e.faults.push_back(f); }
			if (g.faults && r.chance(1, 6)) { Fault f; f.kind = "io.open_fail"; f.a["e"] = std::to_string(r.below(5)); e.faults.push_back(f); }
			else if (r.chance(1, 4)) { Fault f; f.kind = "io.chunk"; f.a["n"] = std::to_string(r.range(1, 64)); e.faults.push_back(f); }
			p.ops.push_back(e);
		}
	}
	p.knobs["indep"] = "0"; p.knobs["fresh"] = "0"; p.knobs["writecheck"] = "0";
}

}   // namespace

Plan make_plan(const std::string &profile, uint64_t seed, const Args &opts) {
	Plan p; p.profile = profile;
	Gen g(Rng::mix(seed ^ hashstr(profile)), p, opts);
	common_knobs(g);
	if (profile == "hist") profile_hist(g, false, false);
	else if (profile == "invalid") profile_hist(g, true, false);
	else if (profile == "copy") profile_hist(g, false, true);
	else if (profile == "solve") profile_solve(g);
	else if (profile == "config") profile_config(g);
	else if (profile == "io") profile_io(g, false);
	else if (profile == "lu") profile_lu(g);
	else if (profile == "resolve") profile_resolve(g);
	else if (profile == "grow") profile_grow(g);
	else if (profile == "bases") profile_bases(g);
	else if (profile == "partial") profile_partial(g);
	else if (profile == "cli") profile_cli(g);
	else if (profile == "reader") profile_io(g, true);
	else profile_hist(g, false, false);
	for (auto &kv : opts) if (starts_with(kv.first, "knob.")) p.knobs[kv.first.substr(5)] = kv.second;
	{ auto it = opts.find("avoid"); if (it != opts.end() && !it->second.empty()) p.knobs["avoid"] = it->second; }
	return p;
}
