// Executor: the only component that touches the library.  A pure function of (plan, code).
#pragma once
#include "world.hpp"
#include <memory>

struct QArr {   // array of mpq_t owned by the harness
	std::vector<__mpq_struct> v;
	explicit QArr(size_t n) : v(n) { for (auto &e : v) mpq_init(&e); }
	~QArr() { for (auto &e : v) mpq_clear(&e); }
	mpq_t *p() { return v.empty() ? (mpq_t *)0 : (mpq_t *)&v[0]; }
	__mpq_struct *at(size_t i) { return &v[i]; }
	mpq_t *ptr(size_t i) { return (mpq_t *)&v[i]; }
	QArr(const QArr &) = delete;
};

struct Violation { std::string prop, cls, detail; int step = -1; bool hard = true; };

struct StoredBasis { std::string cstat, rstat; std::string origin; };

struct Obj {
	mpq_QSprob p = 0;
	LP m;
	int uid = 0;
	// lifecycle (abstract state for signatures and oracle preconditions)
	std::string life = "loaded";       // empty|loaded|edited|optimal|other|interrupted|verdict
	bool edited_since_solve = true;
	bool ever_solved = false, ever_interrupted = false;
	bool limits_default = true;        // no iteration/time limit / canceller installed
	bool reporter_custom = false;
	int last_status = 0;
	std::map<int, int> iparam;         // model of integer params set through the API
	long maxiter = -1; std::string maxtime;   // as set
	int copies_alive = 0;
	int family = 0;                     // objects related by QScopy_prob share a family
	bool reporter_installed = false; int reporter_skip = 100;
	bool broken = false;                // a violation left model and object out of sync: stop judging it
	int from_file_chain = 0;            // how many write/read hops lie behind this object
	std::map<std::string, Q> saved_obj;  // objective coefficients put aside by `chgobj save=1` (restored by `chgobj v=@`)
	bool repairable_names = true;       // every name is a plain token or one of the generator's repair-needing names (objects read from damaged files can carry anything)
	bool tiny_maxtime = false;          // a time limit of 1e-200 s is in force
	bool has_sos = false;               // read from a file with SOS sets (the round-trip laws of C08/C09 do not speak about those)
};

struct FileInfo { std::string kind = "prob", fmt; LP model; bool damaged = false, precond = false, structural = false /* precondition of C08 without the demand that names need no repair */, foreign = false, sos = false, hit = false /* a damage op or a destructive fault touched the bytes */; int chain = 0; std::string cstat, rstat; };

struct Client { std::vector<std::shared_ptr<Obj>> objs; std::vector<StoredBasis> bases; };

struct RunResult {
	std::vector<Violation> violations;
	uint64_t transcript_hash = 0;
	int ops_executed = 0;
	std::vector<uint64_t> signatures;                 // distinct state signatures reached (non-trivial ones)
	std::map<std::string, long> probes;               // named counters
	std::map<std::string, long> faults_fired;
	std::map<std::string, long> nontrivial;           // per property: number of non-trivial events in this run
	double sim_seconds = 0;
	std::string harness_error;                        // non-empty -> exit 2 material
};

class Exec {
public:
	Exec(const Plan &plan, bool trace);
	~Exec();
	void run();
	RunResult res;
	const std::map<std::string, std::string> &disk() const { return world.files; }   // debugging aid (QSIM_DUMP_DIR)
	std::string transcript;          // kept only when trace is on (hash is always computed)
private:
	const Plan &plan; bool trace; World world; Fnv th; int step = 0; const Op *op = 0; int next_uid = 1;
	std::map<int, Client> clients;
	std::map<int, LP> lps; bool stop = false;
	std::map<std::string, FileInfo> files;   // what the harness knows about each SimDisk path
	std::vector<std::string> prob_paths;      // problem files in write order
	std::string last_cli_basis, last_cli_basis_for;
	std::string last_fbasis_path; bool last_fbasis_valid = false;
	std::string io_path(const Op *o, const char *fmt_ext);
	void arm_file_faults(const std::string &path);
	bool roundtrip_precondition(const LP &m, bool names_too = true);
	std::string roundtrip_diff(const LP &want, const LP &got, bool native_ranges);
	std::map<std::string, RefResult> ref_cache;
	struct Outcome { std::string how, config; int status; Q value; int step; std::string note; };
	std::map<std::string, std::vector<Outcome>> outcomes;   // C04: canonical LP -> definitive outcomes
	std::map<std::string, std::vector<Outcome>> stuck;      // C04: canonical LP -> uninterrupted direct solves under default limits that ended non-definitive
	const RefResult &truth(const LP &lp);
	void end_of_history();
	std::vector<std::pair<Obj *, std::string>> others_before;
	void snapshot_others(Obj *target);
	void compare_others(const std::string &what);
	std::string cur_prop_hint; unsigned cur_precision = 128;
	std::set<std::string> avoid;   // shapes of unrepaired known findings owned by other properties (plan knob "avoid")
	bool avoiding(const std::string &t) const { return avoid.count(t) != 0; }

	// infrastructure
	void T(const std::string &line);                                  // transcript line
	void violate(const std::string &prop, const std::string &cls, const std::string &detail, bool hard = false);
	void probe(const std::string &name, long n = 1) { res.probes[name] += n; }
	void nontrivial(const std::string &prop) { res.nontrivial[prop]++; }
	void signature(const std::string &what);
	Obj *pick_obj(Client &c, long idx);
	LP parse_lp(const PlanLP &pl);
	const LP *get_lp(long id);
	void after_lib_call(const std::string &what);                      // drains stdio capture, C20
	int modn(long v, long n) { if (n <= 0) return 0; long r = v % n; if (r < 0) r += n; return (int)r; }

	// library <-> model
	mpq_QSprob lib_build(const LP &lp, const std::string &how, std::string *err);
	bool lib_dump(mpq_QSprob p, int variant, LP &out, std::string &err);
	void check_dump(Obj &o, const char *when);
	std::string snapshot(Obj &o, bool with_solution = true);
	std::string basis_arrays(Obj &o);
	bool get_basis(Obj &o, StoredBasis &b);
	void sync_names(Obj &o);
	void check_accessors(Obj &o, const char *when, bool must_be_optimal);

	// ops
	void do_op();
	void op_create(Client &c); void op_copy(Client &c); void op_free(Client &c);
	void op_edit(Client &c); void op_param(Client &c);
	void op_solve(Client &c); void op_basis(Client &c); void op_verdict(Client &c); void op_tableau(Client &c); void op_pivotin(Client &c);
	void op_write(Client &c); void op_read(Client &c); void op_damage(Client &c); void op_foreign(Client &c);
	void op_wbasis(Client &c); void op_rbasis(Client &c); void op_fbasis(Client &c);
	void op_lu(Client &c); void op_esolver(Client &c); void op_query_invalid(Client &c);
	bool edit_invalid(Obj &o, const Fault &f);
	void invalid_epilogue(Obj &o, const std::string &what, int rv, const std::string &before, bool rejected_ok = true);

	// solve support
	struct SolveOut { int rv = -1; int status = 0; bool have_x = false, have_y = false; std::vector<Q> x, y; StoredBasis basis; bool have_basis = false; };
	SolveOut raw_solve(mpq_QSprob p, const std::string &how, int algo, bool wantx, bool wanty, const StoredBasis *warm, bool want_basis);
	void judge_solve(Obj &o, const SolveOut &so, const std::string &how, bool interrupted_by_plan, bool faulted);
	void fresh_compare(Obj &o, const SolveOut &so, const std::string &how, int algo);
	void copies_independent_check(Client &c, Obj *touched, const std::string &before_other, Obj *other);
	friend struct ExecAccess;
};

// helpers shared between executor files
void q_to_lib(const Num &n, mpq_t out);
Num lib_to_num(mpq_t v);
Q lib_to_q(mpq_t v);
std::string status_name(int s);
bool definitive(int s);
StoredBasis make_basis_pattern(const LP &m, long pat);
