#include "exec.hpp"
#include "shim.h"
#include <algorithm>

// ------------------------------------------------------------------ number conversion at the API boundary
void q_to_lib(const Num &n, mpq_t out) {
	if (n.inf > 0) mpq_set(out, mpq_ILL_MAXDOUBLE);
	else if (n.inf < 0) mpq_set(out, mpq_ILL_MINDOUBLE);
	else { mpq_set(out, n.v.get_mpq_t()); mpq_canonicalize(out); }
}
Num lib_to_num(mpq_t v) {
	if (mpq_equal(v, mpq_ILL_MAXDOUBLE)) return Num::pinf();
	if (mpq_equal(v, mpq_ILL_MINDOUBLE)) return Num::ninf();
	return Num(Q(v));
}
Q lib_to_q(mpq_t v) { return Q(v); }
std::string status_name(int s) {
	switch (s) { case 1: return "OPTIMAL"; case 2: return "INFEASIBLE"; case 3: return "UNBOUNDED"; case 4: return "ITER_LIMIT"; case 5: return "TIME_LIMIT";
	case 6: return "UNSOLVED"; case 7: return "ABORTED"; case 8: return "NUMERR"; case 9: return "OBJ_LIMIT"; case 100: return "MODIFIED"; default: return strf("STATUS_%d", s); }
}
bool definitive(int s) { return s == QS_LP_OPTIMAL || s == QS_LP_INFEASIBLE || s == QS_LP_UNBOUNDED; }


// ------------------------------------------------------------------ Exec infrastructure
Exec::Exec(const Plan &pl, bool tr) : plan(pl), trace(tr) {}
Exec::~Exec() {}

void Exec::T(const std::string &line) {
	th.add(line);
	if (trace) out_line("T " + line);
}
void Exec::violate(const std::string &prop, const std::string &cls, const std::string &detail, bool hard) {
	for (auto &v : res.violations) if (v.prop == prop && v.cls == cls) return;
	Violation v; v.prop = prop; v.cls = cls; v.detail = detail; v.step = step; v.hard = hard; res.violations.push_back(v);
	T("VIOLATION " + prop + " " + cls + " :: " + detail.substr(0, 400));
	if (hard) stop = true;
}
void Exec::signature(const std::string &what) {
	uint64_t h = hashstr(what);
	if (res.signatures.size() < 400 && std::find(res.signatures.begin(), res.signatures.end(), h) == res.signatures.end()) res.signatures.push_back(h);
}
Obj *Exec::pick_obj(Client &c, long idx) {
	if (c.objs.empty()) return 0;
	return c.objs[modn(idx, (long)c.objs.size())].get();
}
LP Exec::parse_lp(const PlanLP &pl) {
	LP lp; lp.objsense = pl.objsense; lp.name = strf("lp%d", pl.id);
	std::set<std::string> seen;
	for (auto &c : pl.cols) { MCol mc; mc.name = c.name; if (seen.count(mc.name)) continue; seen.insert(mc.name);
		if (!parse_q(c.obj, mc.obj)) mc.obj = 0; if (!parse_num(c.lo, mc.lo)) mc.lo = Num(Q(0)); if (!parse_num(c.up, mc.up)) mc.up = Num::pinf();
		mc.isint = false; lp.cols.push_back(mc); }
	seen.clear();
	for (auto &r : pl.rows) { MRow mr; mr.name = r.name; if (seen.count(mr.name)) continue; seen.insert(mr.name);
		mr.sense = (r.sense == 'L' || r.sense == 'G' || r.sense == 'E' || r.sense == 'R') ? r.sense : 'L';
		if (!parse_q(r.rhs, mr.rhs)) mr.rhs = 0; if (!parse_q(r.range, mr.range)) mr.range = 0; if (mr.range < 0) mr.range = -mr.range;
		if (mr.sense != 'R') mr.range = 0;
		if (!lp.cols.empty()) for (auto &p : r.nz) { Q v; if (!parse_q(p.second, v) || v == 0) continue; mr.coef[modn(p.first, (long)lp.cols.size())] = v; }
		lp.rows.push_back(mr); }
	// keep lower <= upper (shrinking numbers may have broken it)
	for (auto &c : lp.cols) if (cmp(c.lo, c.up) > 0) std::swap(c.lo, c.up);
	return lp;
}
const LP *Exec::get_lp(long id) {
	if (plan.lps.empty()) return 0;
	const PlanLP &pl = plan.lps[modn(id, (long)plan.lps.size())];
	auto it = lps.find(pl.id); if (it == lps.end()) it = lps.insert({pl.id, parse_lp(pl)}).first;
	return &it->second;
}
void Exec::after_lib_call(const std::string &what) {
	std::string o = capture_drain(1), e = capture_drain(2);
	if (!o.empty() || !e.empty()) {
		probe("stdio.bytes", (long)(o.size() + e.size()));
		if (world.handler_installed) {
			std::string txt = !e.empty() ? e : o;
			std::string first = txt.substr(0, txt.find('\n'));
			// class: which stream + op kind + a normalised head of the text (digits masked)
			std::string head; for (char ch : first.substr(0, 40)) head += (ch >= '0' && ch <= '9') ? '#' : ch;
			violate("C20", std::string(!e.empty() ? "stderr:" : "stdout:") + what + ":" + head, "library wrote to std stream with a log handler installed: " + txt.substr(0, 300), false);
		}
	}
	if (world.log_null) { violate("C20", "null-message:" + what, "log handler was called with a NULL message", false); world.log_null = 0; }
	if (world.log_fragments) { violate("C20", "fragment:" + what.substr(0, what.find(':')), strf("the log handler received %ld message(s) that are a single character or punctuation only, e.g. [%s]: a diagnostic delivered in pieces", world.log_fragments, world.log_fragment_first.c_str()), false); world.log_fragments = 0; }
}

// ------------------------------------------------------------------ building a library object from a model
mpq_QSprob Exec::lib_build(const LP &lp_in, const std::string &how_in, std::string *err) {
	LP lp = lp_in;   // explicit zeros are a residue of QSchange_coef(..,0); a fresh build does not pass them
	for (auto &r : lp.rows) for (auto it = r.coef.begin(); it != r.coef.end();) { if (it->second == 0) it = r.coef.erase(it); else ++it; }
	size_t n = lp.cols.size(), m = lp.rows.size();
	std::string how = how_in;
	bool has_ranged = false; for (auto &r : lp.rows) if (r.sense == 'R') has_ranged = true;
	if (how == "load" && (has_ranged || n == 0 || m == 0)) how = "build";
	mpq_QSprob p = 0; int rv = 0;
	if (how == "load") {
		std::vector<int> cnt(n, 0), beg(n, 0); std::vector<std::vector<std::pair<int, Q>>> cols(n);
		for (size_t i = 0; i < m; i++) for (auto &kv : lp.rows[i].coef) cols[kv.first].push_back({(int)i, kv.second});
		size_t nz = 0; for (size_t j = 0; j < n; j++) { beg[j] = (int)nz; cnt[j] = (int)cols[j].size(); nz += cols[j].size(); }
		std::vector<int> ind(nz ? nz : 1); QArr val(nz ? nz : 1), obj(n), rhs(m), lo(n), up(n);
		size_t k = 0; for (size_t j = 0; j < n; j++) for (auto &e : cols[j]) { ind[k] = e.first; mpq_set(val.at(k), e.second.get_mpq_t()); k++; }
		std::vector<char> sense(m); std::vector<const char *> cn(n), rn(m);
		for (size_t j = 0; j < n; j++) { mpq_set(obj.at(j), lp.cols[j].obj.get_mpq_t()); q_to_lib(lp.cols[j].lo, lo.at(j)); q_to_lib(lp.cols[j].up, up.at(j)); cn[j] = lp.cols[j].name.c_str(); }
		for (size_t i = 0; i < m; i++) { mpq_set(rhs.at(i), lp.rows[i].rhs.get_mpq_t()); sense[i] = lp.rows[i].sense; rn[i] = lp.rows[i].name.c_str(); }
		p = mpq_QSload_prob(lp.name.c_str(), (int)n, (int)m, cnt.data(), beg.data(), ind.data(), val.p(), lp.objsense > 0 ? QS_MIN : QS_MAX, obj.p(), rhs.p(), sense.data(), lo.p(), up.p(), cn.data(), rn.data());
		if (!p && err) *err = "QSload_prob returned NULL";
		return p;
	}
	p = mpq_QScreate_prob(lp.name.c_str(), lp.objsense > 0 ? QS_MIN : QS_MAX);
	if (!p) { if (err) *err = "QScreate_prob returned NULL"; return 0; }
	QArr t(4);
	if (how == "colwise") {
		for (size_t i = 0; i < m && !rv; i++) { const MRow &r = lp.rows[i];
			mpq_set(t.at(0), r.rhs.get_mpq_t()); mpq_set(t.at(1), r.range.get_mpq_t());
			rv = mpq_QSadd_ranged_row(p, 0, 0, 0, (const mpq_t *)t.at(0), r.sense, (const mpq_t *)t.at(1), r.name.c_str()); }
		for (size_t j = 0; j < n && !rv; j++) { const MCol &c = lp.cols[j];
			std::vector<int> ind; std::vector<Q> vals;
			for (size_t i = 0; i < m; i++) { auto it = lp.rows[i].coef.find((int)j); if (it != lp.rows[i].coef.end()) { ind.push_back((int)i); vals.push_back(it->second); } }
			QArr v(vals.size() ? vals.size() : 1); for (size_t k = 0; k < vals.size(); k++) mpq_set(v.at(k), vals[k].get_mpq_t());
			mpq_set(t.at(0), c.obj.get_mpq_t()); q_to_lib(c.lo, t.at(1)); q_to_lib(c.up, t.at(2));
			rv = mpq_QSadd_col(p, (int)ind.size(), ind.empty() ? 0 : ind.data(), v.p(), t.at(0), t.at(1), t.at(2), c.name.c_str()); }
	} else {   // "build": columns first, then rows (one call or one by one)
		for (size_t j = 0; j < n && !rv; j++) { const MCol &c = lp.cols[j];
			mpq_set(t.at(0), c.obj.get_mpq_t()); q_to_lib(c.lo, t.at(1)); q_to_lib(c.up, t.at(2));
			rv = mpq_QSnew_col(p, t.at(0), t.at(1), t.at(2), c.name.c_str()); }
		if (how == "build1") {
			for (size_t i = 0; i < m && !rv; i++) { const MRow &r = lp.rows[i];
				std::vector<int> ind; QArr v(r.coef.size() ? r.coef.size() : 1); size_t k = 0;
				for (auto &kv : r.coef) { ind.push_back(kv.first); mpq_set(v.at(k++), kv.second.get_mpq_t()); }
				mpq_set(t.at(0), r.rhs.get_mpq_t()); mpq_set(t.at(1), r.range.get_mpq_t());
				if (r.sense == 'R') rv = mpq_QSadd_ranged_row(p, (int)ind.size(), ind.empty() ? 0 : ind.data(), (const mpq_t *)v.p(), (const mpq_t *)t.at(0), r.sense, (const mpq_t *)t.at(1), r.name.c_str());
				else rv = mpq_QSadd_row(p, (int)ind.size(), ind.empty() ? 0 : ind.data(), (const mpq_t *)v.p(), (const mpq_t *)t.at(0), r.sense, r.name.c_str()); }
		} else if (m && !rv) {
			std::vector<int> cnt(m), beg(m), ind; size_t nz = lp.nz();
			QArr v(nz ? nz : 1), rhs(m), rng(m); std::vector<char> sense(m); std::vector<const char *> rn(m); size_t k = 0;
			for (size_t i = 0; i < m; i++) { const MRow &r = lp.rows[i]; beg[i] = (int)k; cnt[i] = (int)r.coef.size();
				for (auto &kv : r.coef) { ind.push_back(kv.first); mpq_set(v.at(k++), kv.second.get_mpq_t()); }
				mpq_set(rhs.at(i), r.rhs.get_mpq_t()); mpq_set(rng.at(i), r.range.get_mpq_t()); sense[i] = r.sense; rn[i] = r.name.c_str(); }
			if (ind.empty()) ind.push_back(0);
			rv = mpq_QSadd_ranged_rows(p, (int)m, cnt.data(), beg.data(), ind.data(), (const mpq_t *)v.p(), (const mpq_t *)rhs.p(), sense.data(), (const mpq_t *)rng.p(), rn.data());
		}
	}
	if (rv) { if (err) *err = strf("building (%s) failed with rv=%d", how.c_str(), rv); mpq_QSfree_prob(p); return 0; }
	return p;
}

// ------------------------------------------------------------------ dump through the query API
static void free_names(char **names, int n) { if (!names) return; for (int i = 0; i < n; i++) mpq_QSfree(names[i]); mpq_QSfree(names); }

bool Exec::lib_dump(mpq_QSprob p, int variant, LP &out, std::string &err) {
	out = LP();
	int n = mpq_QSget_colcount(p), m = mpq_QSget_rowcount(p), nzc = mpq_QSget_nzcount(p);
	if (n < 0 || m < 0) { err = "negative counts"; return false; }
	int os = 0; if (mpq_QSget_objsense(p, &os)) { err = "QSget_objsense failed"; return false; }
	out.objsense = os == QS_MAX ? -1 : 1;
	out.cols.resize(n); out.rows.resize(m);
	int rv = 0;
	std::vector<int> all_cols(n), all_rows(m); for (int j = 0; j < n; j++) all_cols[j] = j; for (int i = 0; i < m; i++) all_rows[i] = i;
	// names
	{
		std::vector<char *> cn(n ? n : 1, (char *)0), rn(m ? m : 1, (char *)0);
		if (n) { rv = mpq_QSget_colnames(p, cn.data()); if (rv) { err = "QSget_colnames failed"; return false; } }
		if (m) { rv = mpq_QSget_rownames(p, rn.data()); if (rv) { err = "QSget_rownames failed"; return false; } }
		for (int j = 0; j < n; j++) { out.cols[j].name = cn[j] ? cn[j] : "<null>"; mpq_QSfree(cn[j]); }
		for (int i = 0; i < m; i++) { out.rows[i].name = rn[i] ? rn[i] : "<null>"; mpq_QSfree(rn[i]); }
	}
	// integrality
	if (n) { std::vector<int> fl(n, 0); rv = mpq_QSget_intflags(p, fl.data()); if (rv) { err = "QSget_intflags failed"; return false; } for (int j = 0; j < n; j++) out.cols[j].isint = fl[j] != 0; }
	QArr tmp(2);
	if (variant % 3 == 0) {
		// objective, rhs, senses, bounds by the whole-array getters; matrix row-wise
		QArr obj(n ? n : 1), lo(n ? n : 1), up(n ? n : 1), rhs(m ? m : 1);
		if (n) { if (mpq_QSget_obj(p, obj.p())) { err = "QSget_obj failed"; return false; } if (mpq_QSget_bounds(p, lo.p(), up.p())) { err = "QSget_bounds failed"; return false; } }
		std::vector<char> sense(m ? m : 1);
		if (m) { if (mpq_QSget_rhs(p, rhs.p())) { err = "QSget_rhs failed"; return false; } if (mpq_QSget_senses(p, sense.data())) { err = "QSget_senses failed"; return false; } }
		for (int j = 0; j < n; j++) { out.cols[j].obj = lib_to_q(obj.at(j)); out.cols[j].lo = lib_to_num(lo.at(j)); out.cols[j].up = lib_to_num(up.at(j)); }
		for (int i = 0; i < m; i++) { out.rows[i].rhs = lib_to_q(rhs.at(i)); out.rows[i].sense = sense[i]; }
		int *rc = 0, *rb = 0, *ri = 0; mpq_t *rvv = 0, *rr = 0, *rg = 0; char *rs = 0; char **nm = 0;
		rv = mpq_QSget_ranged_rows(p, &rc, &rb, &ri, &rvv, &rr, &rs, &rg, &nm);
		if (rv) { err = "QSget_ranged_rows failed"; return false; }
		for (int i = 0; i < m; i++) {
			if (!rc || !rb) { err = "QSget_ranged_rows returned NULL arrays"; break; }
			for (int k = rb[i]; k < rb[i] + rc[i]; k++) { if (out.rows[i].coef.count(ri[k])) err = strf("duplicate column %d in row %d", ri[k], i); out.rows[i].coef[ri[k]] = lib_to_q(rvv[k]); }
			if (rg) out.rows[i].range = lib_to_q(rg[i]);
			if (rs && rs[i] != out.rows[i].sense) err = "sense from get_ranged_rows differs from get_senses";
			if (rr && lib_to_q(rr[i]) != out.rows[i].rhs) err = "rhs from get_ranged_rows differs from get_rhs";
			if (nm && nm[i] && out.rows[i].name != nm[i]) err = "name from get_ranged_rows differs from get_rownames";
		}
		mpq_QSfree(rc); mpq_QSfree(rb); mpq_QSfree(ri); shim_mpq_free(rvv); shim_mpq_free(rr); shim_mpq_free(rg); mpq_QSfree(rs); free_names(nm, m);
		if (!err.empty()) return false;
	} else if (variant % 3 == 1) {
		// column-wise with everything from QSget_columns; rows metadata from QSget_rows
		int *cc = 0, *cb = 0, *ci = 0; mpq_t *cv = 0, *co = 0, *cl = 0, *cu = 0; char **nm = 0;
		rv = mpq_QSget_columns(p, &cc, &cb, &ci, &cv, &co, &cl, &cu, &nm);
		if (rv) { err = "QSget_columns failed"; return false; }
		for (int j = 0; j < n; j++) {
			if (!cc || !cb) { err = "QSget_columns returned NULL arrays"; break; }
			for (int k = cb[j]; k < cb[j] + cc[j]; k++) { int row = ci[k]; if (row < 0 || row >= m) { err = strf("row index %d out of range in column %d", row, j); break; }
				if (out.rows[row].coef.count(j)) err = strf("duplicate row %d in column %d", row, j); out.rows[row].coef[j] = lib_to_q(cv[k]); }
			out.cols[j].obj = lib_to_q(co[j]); out.cols[j].lo = lib_to_num(cl[j]); out.cols[j].up = lib_to_num(cu[j]);
			if (nm && nm[j] && out.cols[j].name != nm[j]) err = "name from get_columns differs from get_colnames";
		}
		mpq_QSfree(cc); mpq_QSfree(cb); mpq_QSfree(ci); shim_mpq_free(cv); shim_mpq_free(co); shim_mpq_free(cl); shim_mpq_free(cu); free_names(nm, n);
		if (!err.empty()) return false;
		int *rc = 0, *rb = 0, *ri = 0; mpq_t *rvv = 0, *rr = 0; char *rs = 0; char **rnm = 0;
		rv = mpq_QSget_rows(p, &rc, &rb, &ri, &rvv, &rr, &rs, &rnm);
		if (rv) { err = "QSget_rows failed"; return false; }
		for (int i = 0; i < m; i++) {
			if (!rc || !rb || !rs || !rr) { err = "QSget_rows returned NULL arrays"; break; }
			out.rows[i].sense = rs[i]; out.rows[i].rhs = lib_to_q(rr[i]);
			std::map<int, Q> rowwise; for (int k = rb[i]; k < rb[i] + rc[i]; k++) rowwise[ri[k]] = lib_to_q(rvv[k]);
			if (rowwise != out.rows[i].coef) err = strf("row %d: row-wise and column-wise extraction differ", i);
		}
		mpq_QSfree(rc); mpq_QSfree(rb); mpq_QSfree(ri); shim_mpq_free(rvv); shim_mpq_free(rr); mpq_QSfree(rs); free_names(rnm, m);
		if (!err.empty()) return false;
		// ranges through the list variant
		if (m) { mpq_t *rg = 0; rv = mpq_QSget_ranged_rows_list(p, m, all_rows.data(), 0, 0, 0, 0, 0, 0, &rg, 0); if (rv) { err = "QSget_ranged_rows_list failed"; return false; }
			for (int i = 0; i < m; i++) if (rg) out.rows[i].range = lib_to_q(rg[i]); shim_mpq_free(rg); }
	} else {
		// element-wise: QSget_coef, QSget_bound, list getters
		QArr obj(n ? n : 1), lo(n ? n : 1), up(n ? n : 1);
		if (n) { if (mpq_QSget_obj_list(p, n, all_cols.data(), obj.p())) { err = "QSget_obj_list failed"; return false; }
			if (mpq_QSget_bounds_list(p, n, all_cols.data(), lo.p(), up.p())) { err = "QSget_bounds_list failed"; return false; } }
		for (int j = 0; j < n; j++) { out.cols[j].obj = lib_to_q(obj.at(j)); out.cols[j].lo = lib_to_num(lo.at(j)); out.cols[j].up = lib_to_num(up.at(j));
			if (mpq_QSget_bound(p, j, 'L', tmp.ptr(0)) || mpq_QSget_bound(p, j, 'U', tmp.ptr(1))) { err = "QSget_bound failed"; return false; }
			if (lib_to_num(tmp.at(0)) != out.cols[j].lo || lib_to_num(tmp.at(1)) != out.cols[j].up) { err = strf("QSget_bound and QSget_bounds_list disagree on column %d", j); return false; } }
		if (m) {
			int *rc = 0, *rb = 0, *ri = 0; mpq_t *rvv = 0, *rr = 0, *rg = 0; char *rs = 0; char **nm = 0;
			rv = mpq_QSget_ranged_rows_list(p, m, all_rows.data(), &rc, &rb, &ri, &rvv, &rr, &rs, &rg, &nm);
			if (rv) { err = "QSget_ranged_rows_list failed"; return false; }
			for (int i = 0; i < m; i++) { out.rows[i].sense = rs[i]; out.rows[i].rhs = lib_to_q(rr[i]); out.rows[i].range = lib_to_q(rg[i]);
				if (nm && nm[i] && out.rows[i].name != nm[i]) err = "name from get_ranged_rows_list differs"; }
			mpq_QSfree(rc); mpq_QSfree(rb); mpq_QSfree(ri); shim_mpq_free(rvv); shim_mpq_free(rr); shim_mpq_free(rg); mpq_QSfree(rs); free_names(nm, m);
			if (!err.empty()) return false;
		}
		for (int i = 0; i < m; i++) for (int j = 0; j < n; j++) { if (mpq_QSget_coef(p, i, j, tmp.ptr(0))) { err = strf("QSget_coef(%d,%d) failed", i, j); return false; } Q v = lib_to_q(tmp.at(0)); if (v != 0) out.rows[i].coef[j] = v; }
		if (n) { int *cc = 0, *cb = 0, *ci = 0; mpq_t *cv = 0; rv = mpq_QSget_columns_list(p, n, all_cols.data(), &cc, &cb, &ci, &cv, 0, 0, 0, 0);
			if (rv) { err = "QSget_columns_list failed"; return false; }
			for (int j = 0; j < n && err.empty(); j++) for (int k = cb[j]; k < cb[j] + cc[j]; k++) { int row = ci[k]; Q cvk = lib_to_q(cv[k]); auto it = out.rows[row].coef.find(j); if (cvk == 0 ? it != out.rows[row].coef.end() : (it == out.rows[row].coef.end() || it->second != cvk)) err = strf("QSget_columns_list and QSget_coef disagree at (%d,%d)", row, j); }
			mpq_QSfree(cc); mpq_QSfree(cb); mpq_QSfree(ci); shim_mpq_free(cv); if (!err.empty()) return false; }
	}
	// (the range of a row that is not ranged is left as the library reports it: it is observable, and it is zero)
	out.lib_nzcount = nzc;
	// name -> index lookups
	for (int j = 0; j < n; j++) { int idx = -2; if (mpq_QSget_column_index(p, out.cols[j].name.c_str(), &idx) || idx != j) { err = strf("QSget_column_index(%s) gives %d, expected %d", out.cols[j].name.c_str(), idx, j); return false; } }
	for (int i = 0; i < m; i++) { int idx = -2; if (mpq_QSget_row_index(p, out.rows[i].name.c_str(), &idx) || idx != i) { err = strf("QSget_row_index(%s) gives %d, expected %d", out.rows[i].name.c_str(), idx, i); return false; } }
	return true;
}

void Exec::check_dump(Obj &o, const char *when) {
	LP got; std::string err;
	if (trace) out_line("L   basis " + basis_arrays(o) + strf(" factorok=%d qstatus=%d", o.p->factorok, o.p->qstatus));
	int variant = step + o.uid;
	bool ok = lib_dump(o.p, variant, got, err);
	after_lib_call("query");
	// a name lookup that answers with the wrong index leaves problem and model in step: the object stays in use, so that the checks of the
	// properties that depend on names (basis files, named edits) still get to see what the stale index does there
	if (!ok) { violate("C06", std::string("query-failed:") + (op ? op->kind : "?"), std::string(when) + ": " + err); if (err.find("_index(") == std::string::npos) o.broken = true; return; }
	std::string a = got.canon(true), b = o.m.canon(true);   // the range a non-ranged row reports is observable too (QSget_ranged_rows): it is zero
	if (a == b && (got.lib_nzcount < o.m.nz() || got.lib_nzcount > o.m.nz() + o.m.zeros()))
		violate("C06", std::string("nzcount:") + (op ? op->kind : "?") + (op && op->has("what") ? ":" + op->s("what") : ""), strf("%s: QSget_nzcount=%d but the problem has %d nonzeros (+%d explicit zeros)", when, got.lib_nzcount, o.m.nz(), o.m.zeros()));
	if (a != b) {
		// find first differing line for the report
		std::vector<std::string> la = split(a, '\n'), lb = split(b, '\n'); std::string d;
		for (size_t i = 0; i < std::max(la.size(), lb.size()); i++) { std::string x = i < la.size() ? la[i] : "<none>", y = i < lb.size() ? lb[i] : "<none>"; if (x != y) { d = "library: " + x + " | model: " + y; break; } }
		violate("C06", std::string("dump-mismatch:") + (op ? op->kind : "?") + (op && op->has("what") ? ":" + op->s("what") : ""), std::string(when) + strf(" (variant %d): ", variant % 3) + d);
		o.broken = true;
	}
}

void Exec::sync_names(Obj &o) {
	int n = mpq_QSget_colcount(o.p), m = mpq_QSget_rowcount(o.p);
	if (n == (int)o.m.cols.size() && n) { std::vector<char *> cn(n, (char *)0); if (!mpq_QSget_colnames(o.p, cn.data())) for (int j = 0; j < n; j++) { if (o.m.cols[j].name.empty() && cn[j]) o.m.cols[j].name = cn[j]; mpq_QSfree(cn[j]); } }
	if (m == (int)o.m.rows.size() && m) { std::vector<char *> rn(m, (char *)0); if (!mpq_QSget_rownames(o.p, rn.data())) for (int i = 0; i < m; i++) { if (o.m.rows[i].name.empty() && rn[i]) o.m.rows[i].name = rn[i]; mpq_QSfree(rn[i]); } }
}

bool Exec::get_basis(Obj &o, StoredBasis &b) {
	int n = mpq_QSget_colcount(o.p), m = mpq_QSget_rowcount(o.p);
	std::vector<char> cs(n + 1, 0), rs(m + 1, 0);
	int rv = mpq_QSget_basis_array(o.p, cs.data(), rs.data());
	if (rv) return false;
	b.cstat.assign(cs.data(), n); b.rstat.assign(rs.data(), m); return true;
}
std::string Exec::basis_arrays(Obj &o) {
	StoredBasis b; if (!get_basis(o, b)) return "nobasis";
	return b.cstat + "|" + b.rstat;
}

// everything observable about an object, as text (used for "unchanged" oracles: C07, C16)
std::string Exec::snapshot(Obj &o, bool with_solution) {
	std::string s; LP got; std::string err;
	if (!lib_dump(o.p, 0, got, err)) s += "dumpfail:" + err + "\n"; else s += got.canon(true);
	s += "basis " + basis_arrays(o) + "\n";
	int st = 0; int rv = mpq_QSget_status(o.p, &st); s += strf("status rv=%d %s\n", rv, status_name(st).c_str());
	for (int w : {QS_PARAM_PRIMAL_PRICING, QS_PARAM_DUAL_PRICING, QS_PARAM_SIMPLEX_DISPLAY, QS_PARAM_SIMPLEX_MAX_ITERATIONS, QS_PARAM_SIMPLEX_SCALING}) { int v = 0; rv = mpq_QSget_param(o.p, w, &v); s += strf("param %d rv=%d %d\n", w, rv, v); }
	{ QArr t(1); for (int w : {QS_PARAM_SIMPLEX_MAX_TIME, QS_PARAM_OBJULIM, QS_PARAM_OBJLLIM}) { rv = mpq_QSget_param_EGlpNum(o.p, w, t.p()); s += strf("nparam %d rv=%d %s\n", w, rv, rv ? "-" : numstr(lib_to_num(t.at(0))).c_str()); } }
	if (with_solution) {
		int n = mpq_QSget_colcount(o.p), m = mpq_QSget_rowcount(o.p);
		QArr x(n ? n : 1), rc(n ? n : 1), pi(m ? m : 1), sl(m ? m : 1), val(1);
		rv = mpq_QSget_objval(o.p, val.p()); s += strf("objval rv=%d %s\n", rv, rv ? "-" : qstr(lib_to_q(val.at(0))).c_str());
		rv = mpq_QSget_solution(o.p, val.p(), x.p(), pi.p(), sl.p(), rc.p()); s += strf("solution rv=%d", rv);
		if (!rv) { s += " val " + qstr(lib_to_q(val.at(0))); for (int j = 0; j < n; j++) s += " x" + qstr(lib_to_q(x.at(j))) + " d" + qstr(lib_to_q(rc.at(j))); for (int i = 0; i < m; i++) s += " p" + qstr(lib_to_q(pi.at(i))) + " s" + qstr(lib_to_q(sl.at(i))); }
		s += "\n";
		// the basis the simplex itself stands on (what the tableau getters talk about), next to the stored one above
		{ std::vector<int> ord(m + 1, 0); int ro = m ? mpq_QSget_basis_order(o.p, ord.data()) : 1; s += strf("order rv=%d", ro != 0); if (!ro) for (int i = 0; i < m; i++) s += strf(" %d", ord[i]); s += "\n"; }
	}
	after_lib_call("query");
	return s;
}

// C01 / C05(b): whatever the accessors hand out must be an exact optimum of the model as it stands
void Exec::check_accessors(Obj &o, const char *when, bool must_be_optimal) {
	int n = mpq_QSget_colcount(o.p), m = mpq_QSget_rowcount(o.p);
	if (n != (int)o.m.cols.size() || m != (int)o.m.rows.size()) return;   // C06 will complain
	QArr x(n ? n : 1), rc(n ? n : 1), pi(m ? m : 1), sl(m ? m : 1), val(1), t(1);
	auto vec = [&](QArr &a, int k) { std::vector<Q> v(k); for (int i = 0; i < k; i++) v[i] = lib_to_q(a.at(i)); return v; };
	int st = 0; int rs = mpq_QSget_status(o.p, &st);
	int r_x = mpq_QSget_x_array(o.p, x.p()), r_pi = mpq_QSget_pi_array(o.p, pi.p()), r_rc = mpq_QSget_rc_array(o.p, rc.p()), r_sl = mpq_QSget_slack_array(o.p, sl.p()), r_v = mpq_QSget_objval(o.p, val.p());
	after_lib_call("accessor");
	std::string ctx = std::string(when) + ":" + (op ? op->kind : "?") + (op && op->has("what") ? ":" + op->s("what") : "");
	const char *prop = must_be_optimal ? "C01" : "C05";
	T(strf("  accessors status=%s x=%d pi=%d rc=%d slack=%d objval=%d", rs ? "ERR" : status_name(st).c_str(), r_x, r_pi, r_rc, r_sl, r_v));
	if (must_be_optimal) {
		if (r_x || r_pi || r_rc || r_sl || r_v) { violate("C01", "accessor-failed:" + ctx, strf("status OPTIMAL but accessors failed: x=%d pi=%d rc=%d slack=%d objval=%d", r_x, r_pi, r_rc, r_sl, r_v)); return; }
	} else {
		// stale-solution rule: an accessor may fail; if the vectors are served they must be optimal for the current model
		if (!rs && st == QS_LP_OPTIMAL && (r_x || r_pi)) { /* status says optimal but vectors unavailable: not a stale *solution* */ }
		// the infeasibility certificate is a solution accessor too: after an edit it either fails or proves the problem as it now stands infeasible
		// (the array has exactly as many entries as the problem has rows now)
		if (m > 0) { QArr y(m); int r_y = mpq_QSget_infeas_array(o.p, y.p()); after_lib_call("accessor");
			if (!r_y) { probe("c05.certificate_served_after_edit"); Verdict fv = check_farkas(o.m, vec(y, m)); if (!fv.ok) { violate("C05", "stale-certificate:" + ctx, "after an edit QSget_infeas_array still succeeds, with multipliers that are no certificate for the problem as it stands: " + fv.why); return; } } }
		if (r_x || r_pi) return;
		probe("c05.accessor_served_after_edit");
	}
	std::vector<Q> vx = vec(x, n), vpi = vec(pi, m), vrc = vec(rc, n), vsl = vec(sl, m); Q v = lib_to_q(val.at(0));
	{ Fnv h; for (auto &q : vx) h.add(qstr(q)); for (auto &q : vpi) h.add(qstr(q)); if (!r_rc) for (auto &q : vrc) h.add(qstr(q)); if (!r_sl) for (auto &q : vsl) h.add(qstr(q)); if (!r_v) h.add(qstr(v)); T("  solution-digest " + hex64(h.h)); }
	Verdict vd = check_optimal(o.m, vx, vpi, r_rc ? 0 : &vrc, r_sl ? 0 : &vsl, r_v ? 0 : &v);
	if (!vd.ok) { violate(prop, std::string(must_be_optimal ? "accessor-cert:" : "stale-solution:") + ctx, vd.why); return; }
	if (must_be_optimal) nontrivial("C01");
	// cross-check the other accessor forms against the arrays
	int r = mpq_QSget_solution(o.p, val.p(), x.p(), pi.p(), sl.p(), rc.p());
	if (!r) { if (vec(x, n) != vx || vec(pi, m) != vpi || vec(rc, n) != vrc || vec(sl, m) != vsl || lib_to_q(val.at(0)) != v) violate(prop, "accessor-inconsistent:solution:" + ctx, "QSget_solution differs from the array accessors"); }
	else if (must_be_optimal) violate("C01", "accessor-failed:solution:" + ctx, "QSget_solution failed on OPTIMAL");
	if (n) { int j = modn(step, n); if (!mpq_QSget_named_x(o.p, o.m.cols[j].name.c_str(), t.ptr(0)) && lib_to_q(t.at(0)) != vx[j]) violate(prop, "accessor-inconsistent:named_x:" + ctx, "QSget_named_x differs from x array");
		if (!mpq_QSget_named_rc(o.p, o.m.cols[j].name.c_str(), t.ptr(0)) && lib_to_q(t.at(0)) != vrc[j]) violate(prop, "accessor-inconsistent:named_rc:" + ctx, "QSget_named_rc differs from rc array"); }
	if (m) { int i = modn(step, m); if (!mpq_QSget_named_pi(o.p, o.m.rows[i].name.c_str(), t.ptr(0)) && lib_to_q(t.at(0)) != vpi[i]) violate(prop, "accessor-inconsistent:named_pi:" + ctx, "QSget_named_pi differs from pi array");
		if (!mpq_QSget_named_slack(o.p, o.m.rows[i].name.c_str(), t.ptr(0)) && lib_to_q(t.at(0)) != vsl[i]) violate(prop, "accessor-inconsistent:named_slack:" + ctx, "QSget_named_slack differs from slack array"); }
	after_lib_call("accessor");
}
