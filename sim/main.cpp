// qsim: deterministic simulation worker for qsopt-ex.
//   qsim --worker                 read commands on stdin, one result line per run on stdout
//        commands:  seed <profile> <seed> [k=v ...]        plan generated from the seed
//                   plan <path>                            plan read from a file
//                   quit
//   qsim --emit-plan <profile> <seed> [k=v ...]            print the plan a seed expands to
//   qsim --replay <file> [--trace]                         run one plan, print transcript (trace) and result
#include "exec.hpp"
#include "planner.hpp"
#include <fstream>
#include <sstream>
#include <iostream>
#include <unistd.h>

#if SIM_ASAN
extern "C" int __lsan_do_recoverable_leak_check(void);
extern "C" __attribute__((used, visibility("default"))) const char *__asan_default_options() {
	return "exitcode=77:detect_leaks=1:leak_check_at_exit=0:abort_on_error=0:allocator_may_return_null=1:detect_stack_use_after_return=0:handle_segv=1:handle_sigfpe=1:print_summary=1";
}
extern "C" __attribute__((used, visibility("default"))) const char *__ubsan_default_options() {
	return "print_stacktrace=1:halt_on_error=1:exitcode=77";
}
extern "C" __attribute__((used, visibility("default"))) const char *__lsan_default_options() {
	return "print_suppressions=0:report_objects=0";
}
#endif

static std::string read_file(const std::string &p) { std::ifstream f(p, std::ios::binary); std::stringstream ss; ss << f.rdbuf(); return ss.str(); }

static std::string json_escape(const std::string &s) {
	std::string o; for (unsigned char c : s) { if (c == '"' || c == '\\') { o += '\\'; o += c; } else if (c == '\n') o += "\\n"; else if (c == '\t') o += "\\t"; else if (c < 32 || c > 126) o += strf("\\u%04x", c); else o += c; } return o;
}

// leak check (C18): only meaningful in sanitizer flavours; returns the report text ("" = clean)
static std::string leak_check() {
#if SIM_ASAN
	capture_drain(2);
	int r = __lsan_do_recoverable_leak_check();
	std::string rep = capture_drain(2);
	if (r == 0) return "";
	return rep.empty() ? std::string("leak reported but no text captured") : rep;
#else
	return "";
#endif
}

static std::string result_json(const std::string &id, const Plan &plan, const RunResult &r, const std::string &leak) {
	std::string s = "{";
	s += "\"id\":\"" + json_escape(id) + "\"";
	s += ",\"profile\":\"" + json_escape(plan.profile) + "\"";
	s += ",\"plan_hash\":\"" + hex64(hashstr(plan.text())) + "\"";
	s += ",\"transcript_hash\":\"" + hex64(r.transcript_hash) + "\"";
	s += strf(",\"ops\":%d,\"sim_seconds\":%.6f", r.ops_executed, r.sim_seconds);
	s += ",\"violations\":[";
	for (size_t i = 0; i < r.violations.size(); i++) { const Violation &v = r.violations[i]; if (i) s += ",";
		s += "{\"prop\":\"" + v.prop + "\",\"cls\":\"" + json_escape(v.cls) + "\",\"detail\":\"" + json_escape(v.detail.substr(0, 600)) + strf("\",\"step\":%d}", v.step); }
	s += "]";
	auto mapj = [&](const char *name, const std::map<std::string, long> &m) { s += std::string(",\"") + name + "\":{"; bool first = true; for (auto &kv : m) { if (!first) s += ","; first = false; s += "\"" + json_escape(kv.first) + "\":" + std::to_string(kv.second); } s += "}"; };
	mapj("probes", r.probes); mapj("faults", r.faults_fired); mapj("nontrivial", r.nontrivial);
	s += ",\"sigs\":["; for (size_t i = 0; i < r.signatures.size(); i++) { if (i) s += ","; s += "\"" + hex64(r.signatures[i]) + "\""; } s += "]";
	if (!r.harness_error.empty()) s += ",\"harness_error\":\"" + json_escape(r.harness_error) + "\"";
	if (!leak.empty()) s += ",\"leak\":\"" + json_escape(leak.substr(0, 6000)) + "\"";
	s += "}";
	return s;
}

static std::string run_plan(const std::string &id, const Plan &plan, bool trace, std::string *transcript_out) {
	RunResult res; std::string leak;
	{
		QSexactStart();
		{
			Exec ex(plan, trace);
			ex.run();
			// debugging aid: QSIM_DUMP_DIR=<dir> copies the simulated disk out at the end of a replay (not used by any check)
			if (const char *dd = getenv("QSIM_DUMP_DIR")) for (auto &kv : ex.disk()) { std::string n = kv.first; for (char &ch : n) if (ch == '/') ch = '_'; FILE *f = fopen((std::string(dd) + "/" + n).c_str(), "wb"); if (f) { fwrite(kv.second.data(), 1, kv.second.size(), f); fclose(f); } }
			res = ex.res;
			if (transcript_out) *transcript_out = ex.transcript;
		}
		QSexactClear();
	}
	if (plan.knobi("leakcheck", 0)) leak = leak_check();
	return result_json(id, plan, res, leak);
}

static Args kv_args(const std::vector<std::string> &w, size_t from) { Args a; for (size_t i = from; i < w.size(); i++) { size_t e = w[i].find('='); if (e != std::string::npos) a[w[i].substr(0, e)] = w[i].substr(e + 1); } return a; }

static Plan plan_from_seed(const std::string &profile, uint64_t seed, const Args &opts) {
	Plan p;
	QSexactStart();
	{ p = make_plan(profile, seed, opts); }
	QSexactClear();
	return p;
}

int main(int argc, char **argv) {
	std::vector<std::string> av(argv, argv + argc);
	QSlog_set_handler(sim_log_handler, 0);
	if (argc >= 2 && av[1] == "--emit-plan" && argc >= 4) {
		Plan p = plan_from_seed(av[2], strtoull(av[3].c_str(), 0, 10), kv_args(av, 4));
		fputs(p.text().c_str(), stdout); return 0;
	}
	capture_init();
	if (argc >= 3 && av[1] == "--replay") {
		bool trace = false; for (auto &a : av) if (a == "--trace") trace = true;
		Plan p; std::string err;
		if (!p.parse(read_file(av[2]), &err)) { out_line("{\"harness_error\":\"" + json_escape(err) + "\"}"); return 2; }
		std::string tr; std::string r = run_plan(av[2], p, trace, &tr);
		out_line(r); return 0;
	}
	if (argc >= 2 && av[1] == "--worker") {
		std::string line;
		while (std::getline(std::cin, line)) {
			std::vector<std::string> w = split(line);
			if (w.empty()) continue;
			if (w[0] == "quit") break;
			if (w[0] == "seed" && w.size() >= 3) {
				Plan p = plan_from_seed(w[1], strtoull(w[2].c_str(), 0, 10), kv_args(w, 3));
				out_line(run_plan(w[1] + ":" + w[2], p, false, 0));
			} else if (w[0] == "plan" && w.size() >= 2) {
				Plan p; std::string err;
				if (!p.parse(read_file(w[1]), &err)) { out_line("{\"id\":\"" + json_escape(w[1]) + "\",\"harness_error\":\"" + json_escape(err) + "\"}"); continue; }
				out_line(run_plan(w[1], p, false, 0));
			} else out_line("{\"harness_error\":\"bad command\"}");
		}
		return 0;
	}
	fprintf(stderr, "usage: qsim --worker | --emit-plan <profile> <seed> | --replay <file> [--trace]\n");
	return 2;
}
