#pragma once
#include "plan.hpp"
// seed -> plan.  Must be called between QSexactStart and QSexactClear (uses GMP).
// opts: avoid=<tok,tok>  (known-finding shapes not to generate), faults=0|1 (batch A / B), long=1, flavour hints.
Plan make_plan(const std::string &profile, uint64_t seed, const Args &opts);
