#include "exec.hpp"
#include "shim.h"
#include <algorithm>
void lu_forget(Exec *e);

const RefResult &Exec::truth(const LP &lp) {
	std::string key = lp.canon();
	auto it = ref_cache.find(key);
	if (it == ref_cache.end()) {
		RefResult r = ref_solve(lp, (int)plan.knobi("ref.maxrows", 10), (int)plan.knobi("ref.maxcols", 10));
		if (!r.err.empty()) res.harness_error = "reference solver: " + r.err;
		it = ref_cache.insert({key, r}).first;
		probe("ref.solved"); probe("ref.pivots", r.pivots);
	}
	return it->second;
}

void Exec::snapshot_others(Obj *target) {
	others_before.clear();
	long mode = plan.knobi("indep", 1);
	if (!mode || !target) return;
	for (auto &kv : clients) for (auto &sp : kv.second.objs) {
		Obj *o = sp.get(); if (o == target || o->broken) continue;
		if (mode == 1 && o->family != target->family) continue;
		others_before.push_back({o, snapshot(*o)});
	}
}
void Exec::compare_others(const std::string &what) {
	for (auto &pr : others_before) {
		// the other object may have been freed by this op only if it was the target, which is excluded
		std::string now = snapshot(*pr.first);
		if (now != pr.second) {
			std::vector<std::string> la = split(pr.second, '\n'), lb = split(now, '\n'); std::string d;
			for (size_t i = 0; i < std::max(la.size(), lb.size()); i++) { std::string x = i < la.size() ? la[i] : "<none>", y = i < lb.size() ? lb[i] : "<none>"; if (x != y) { d = "before: " + x + " | after: " + y; break; } }
			violate("C16", "other-object-changed:" + what, strf("object %d changed although the operation was on another object: ", pr.first->uid) + d);
			pr.first->broken = true;
		} else nontrivial("C16");
	}
	others_before.clear();
}

void Exec::run() {
	W = &world;
	world.handler_installed = true;
	world.step = 1e-6 * (double)plan.knobi("clk.step_us", 1);
	world.fill_on = (int)plan.knobi("mem.fill", 0); world.fill_seed = (unsigned)plan.knobi("mem.fill", 0);
	world.lu_refactor_every = (int)plan.knobi("lu.refactor_every", 0);
	world.ladder_cut = (int)plan.knobi("ladder.cut", 0);
	capture_drain(1); capture_drain(2);
	for (auto &t : split(plan.knob("avoid"), ',')) if (!t.empty()) avoid.insert(t);
	QSexact_set_precision(cur_precision);
	T("plan " + plan.profile);
	long maxops = plan.knobi("maxops", 100000);
	for (size_t k = 0; k < plan.ops.size() && !stop && (long)k < maxops; k++) {
		op = &plan.ops[k]; step = (int)k;
		world.begin_op(op);
		std::string line = strf("op %d c%d %s", step, op->client, op->kind.c_str());
		for (auto &kv : op->a) line += " " + kv.first + "=" + kv.second;
		for (auto &f : op->faults) { line += " [" + f.kind; for (auto &kv : f.a) line += " " + kv.first + "=" + kv.second; line += "]"; }
		T(line);
		do_op();
		if (trace) for (auto &m : world.log) out_line("L   " + m.substr(0, 200));
		res.ops_executed++;
		for (auto &kv : world.io_fired) { res.faults_fired[kv.first] += kv.second; } world.io_fired.clear();
		for (auto &kv : world.flt_fired) { res.faults_fired[kv.first] += kv.second; } world.flt_fired.clear();
		if (world.clk_fired) { res.faults_fired["clk.limit"] += world.clk_fired; world.clk_fired = 0; }
		if (world.ladder_cut_in_op) res.faults_fired["clk.ladder_cut"] += world.ladder_cut_in_op;
		if (world.cancel_fired) { res.faults_fired["cancel.abort"] += world.cancel_fired; world.cancel_fired = 0; }
		if (world.lu_forced) { res.faults_fired["lu.refactor"] += world.lu_forced; world.lu_forced = 0; }
		for (auto &sp : world.stray) { probe("stray_file_written"); T("  stray file " + sp); } world.stray.clear();
		world.end_op();
	}
	op = 0;
	if (!stop) end_of_history();
	lu_forget(this);
	// tear down through the documented free functions
	for (auto &kv : clients) { for (auto &sp : kv.second.objs) if (sp->p) { mpq_QSfree_prob(sp->p); sp->p = 0; } kv.second.objs.clear(); }
	after_lib_call("free");
	res.sim_seconds = world.now - 1000.0;
	res.probes["clock.reads"] += world.reads_total;
	res.probes["lu.updates"] += world.lu_updates; res.probes["lu.factors"] += world.lu_factors;
	res.probes["log.messages"] += world.log_total;
	res.probes["copies.checked"] += world.copies_checked;
	if (res.ops_executed >= 3) { nontrivial("C17"); nontrivial("C20"); nontrivial("C18"); }
	T("end");
	res.transcript_hash = th.h;
	W = 0;
}

void Exec::end_of_history() {
	// C04: all definitive outcomes recorded for one LP must coincide
	for (auto &kv : outcomes) {
		auto &v = kv.second; if (v.size() < 2) continue;
		std::set<std::string> cfgs; for (auto &o : v) cfgs.insert(o.config);
		if (cfgs.size() >= 2) nontrivial("C04");
		for (size_t i = 1; i < v.size(); i++) {
			if (v[i].status != v[0].status || (v[0].status == QS_LP_OPTIMAL && v[i].value != v[0].value)) {
				violate("C04", "config-disagree:" + v[0].how + "-" + status_name(v[0].status) + "/" + v[i].how + "-" + status_name(v[i].status),
					strf("same LP, step %d [%s] gave %s %s but step %d [%s] gave %s %s", v[0].step, v[0].config.c_str(), status_name(v[0].status).c_str(), qstr(v[0].value).c_str(),
						v[i].step, v[i].config.c_str(), status_name(v[i].status).c_str(), qstr(v[i].value).c_str()));
				break;
			}
		}
	}
	// ... and a way of driving the library that, left alone under default limits, never arrives while another one does, disagrees too
	for (auto &kv : stuck) { auto it = outcomes.find(kv.first); if (it == outcomes.end() || it->second.empty()) continue; const Outcome &d = it->second[0], &n = kv.second[0];
		violate("C04", "config-disagree:non-definitive:" + n.how + "-" + status_name(n.status) + n.note + "/" + d.how + "-" + status_name(d.status),
			strf("same LP, step %d [%s] reached %s, but step %d [%s], uninterrupted and under default limits, ended %s", d.step, d.config.c_str(), status_name(d.status).c_str(), n.step, n.config.c_str(), status_name(n.status).c_str())); }
}

void Exec::do_op() {
	Client &c = clients[op->client];
	const std::string &k = op->kind;
	if (k == "create") op_create(c);
	else if (k == "copy") op_copy(c);
	else if (k == "free") op_free(c);
	else if (k == "edit") op_edit(c);
	else if (k == "param") op_param(c);
	else if (k == "solve") op_solve(c);
	else if (k == "basis") op_basis(c);
	else if (k == "verdict") op_verdict(c);
	else if (k == "tableau") op_tableau(c);
	else if (k == "pivotin") op_pivotin(c);
	else if (k == "write") op_write(c);
	else if (k == "read") op_read(c);
	else if (k == "damage") op_damage(c);
	else if (k == "foreign") op_foreign(c);
	else if (k == "wbasis") op_wbasis(c);
	else if (k == "rbasis") op_rbasis(c);
	else if (k == "fbasis") op_fbasis(c);
	else if (k == "lu") op_lu(c);
	else if (k == "esolver") op_esolver(c);
	else if (k == "qinvalid") op_query_invalid(c);
	else T("  unknown op kind (skipped)");
}

// ------------------------------------------------------------------ create / copy / free
void Exec::op_create(Client &c) {
	const LP *lp = get_lp(op->i("lp"));
	LP empty; empty.name = "empty";
	if (!lp || op->s("how") == "empty") lp = &empty;
	std::string err; std::string how = op->s("how", "build");
	mpq_QSprob p = lib_build(*lp, how, &err);
	after_lib_call("create");
	if (!p) { violate("C06", "create-failed:" + how, err); return; }
	auto o = std::make_shared<Obj>(); o->p = p; o->m = *lp; o->uid = next_uid++; o->family = o->uid;
	o->life = lp->cols.empty() && lp->rows.empty() ? "empty" : "loaded";
	c.objs.push_back(o);
	T(strf("  created obj %d (%s) %dx%d", o->uid, how.c_str(), (int)lp->rows.size(), (int)lp->cols.size()));
	signature("create:" + how + ":" + o->life);
	check_dump(*o, "after-create");
}

void Exec::op_copy(Client &c) {
	Obj *src = pick_obj(c, op->i("o")); if (!src || src->broken) { T("  skip"); return; }
	std::string nm = op->s("name", "copy");
	mpq_QSprob q = mpq_QScopy_prob(src->p, nm.c_str());
	after_lib_call("copy");
	if (!q) { violate("C16", "copy-failed:" + src->life, "QScopy_prob returned NULL"); return; }
	auto o = std::make_shared<Obj>(); o->p = q; o->m = src->m; o->uid = next_uid++; o->family = src->family; o->tiny_maxtime = src->tiny_maxtime; o->has_sos = src->has_sos; o->repairable_names = src->repairable_names;
	o->life = "loaded"; o->limits_default = src->limits_default; o->iparam = src->iparam;
	Client &dst = clients[(int)op->i("to", op->client)];
	dst.objs.push_back(o);
	T(strf("  copied obj %d -> obj %d", src->uid, o->uid));
	signature("copy:" + src->life);
	// faithful: same data, names, sense, integrality and parameters
	LP got; std::string err;
	if (!lib_dump(q, step, got, err)) { violate("C16", "copy-dump-failed:" + src->life, err); o->broken = true; return; }
	if (got.canon(true) != src->m.canon(true)) {
		std::vector<std::string> la = split(got.canon(true), '\n'), lb = split(src->m.canon(true), '\n'); std::string d;
		for (size_t i = 0; i < std::max(la.size(), lb.size()); i++) { std::string x = i < la.size() ? la[i] : "<none>", y = i < lb.size() ? lb[i] : "<none>"; if (x != y) { d = "copy: " + x + " | original model: " + y; break; } }
		violate("C16", "copy-differs:" + src->life, d); o->broken = true; return;
	}
	{ char *oa = mpq_QSget_objname(src->p), *ob = mpq_QSget_objname(q);   // names are part of "observably equal": the objective's (the problem's own name is the one the caller gave the copy)
		if ((oa == 0) != (ob == 0) || (oa && ob && strcmp(oa, ob))) violate("C16", "copy-objname-differs", strf("objective name: original %s, copy %s", oa ? oa : "(none)", ob ? ob : "(none)"), false);
		mpq_QSfree(oa); mpq_QSfree(ob); }
	for (int w : {QS_PARAM_PRIMAL_PRICING, QS_PARAM_DUAL_PRICING, QS_PARAM_SIMPLEX_DISPLAY, QS_PARAM_SIMPLEX_MAX_ITERATIONS, QS_PARAM_SIMPLEX_SCALING}) {
		int a = 0, b = 0; int ra = mpq_QSget_param(src->p, w, &a), rb = mpq_QSget_param(q, w, &b);
		if (ra || rb || a != b) { violate("C16", strf("copy-param-differs:%d", w), strf("param %d: original %d copy %d", w, a, b), false); }
	}
	{ QArr t(2); for (int w : {QS_PARAM_SIMPLEX_MAX_TIME, QS_PARAM_OBJULIM, QS_PARAM_OBJLLIM}) { int ra = mpq_QSget_param_EGlpNum(src->p, w, t.ptr(0)), rb = mpq_QSget_param_EGlpNum(q, w, t.ptr(1));
		if (ra || rb || !mpq_equal(t.at(0), t.at(1))) violate("C16", strf("copy-param-differs:%d", w), strf("numeric param %d differs between original and copy", w), false); } }
	after_lib_call("copy");
	nontrivial("C16");
}

void Exec::op_free(Client &c) {
	if (c.objs.empty()) { T("  skip"); return; }
	int k = modn(op->i("o"), (long)c.objs.size());
	Obj *o = c.objs[k].get();
	snapshot_others(o);
	mpq_QSfree_prob(o->p); o->p = 0;
	after_lib_call("free");
	T(strf("  freed obj %d", o->uid));
	signature("free:" + o->life);
	auto keep = c.objs[k]; c.objs.erase(c.objs.begin() + k);
	compare_others("free");
}

// ------------------------------------------------------------------ parameters
void Exec::op_param(Client &c) {
	Obj *o = pick_obj(c, op->i("o")); if (!o || o->broken) { T("  skip"); return; }
	std::string what = op->s("what", "pricing");
	int rv = 0;
	if (const Fault *f = op->fault("api.invalid")) {
		std::string before = snapshot(*o);
		long v = fi(*f, "v");
		static const int badwhich[] = {-1, 1, 3, 10, 99, 1000};
		static const int badprice[] = {0, 5, 10, -3, 77};
		switch (modn(v, 6)) {
		case 0: rv = mpq_QSset_param(o->p, badwhich[modn(v / 6, 6)], 1); break;
		case 1: rv = mpq_QSset_param(o->p, QS_PARAM_PRIMAL_PRICING, badprice[modn(v / 6, 5)]); break;
		case 2: rv = mpq_QSset_param(o->p, QS_PARAM_DUAL_PRICING, badprice[modn(v / 6, 5)]); break;
		case 3: rv = mpq_QSset_param(o->p, QS_PARAM_SIMPLEX_DISPLAY, modn(v / 6, 2) ? 4 : -1); break;
		case 4: rv = mpq_QSset_param(o->p, QS_PARAM_SIMPLEX_MAX_ITERATIONS, modn(v / 6, 2) ? 0 : -5); break;
		default: rv = mpq_QSset_param(o->p, QS_PARAM_SIMPLEX_SCALING, modn(v / 6, 2) ? 2 : -1); break;
		}
		invalid_epilogue(*o, strf("setparam:%d", modn(v, 6)), rv, before);
		return;
	}
	long v = op->i("v");
	if (what == "pprice") { static const int pp[] = {QS_PRICE_PDANTZIG, QS_PRICE_PDEVEX, QS_PRICE_PSTEEP, QS_PRICE_PMULTPARTIAL}; int val = pp[modn(v, 4)]; rv = mpq_QSset_param(o->p, QS_PARAM_PRIMAL_PRICING, val); o->iparam[QS_PARAM_PRIMAL_PRICING] = val; }
	else if (what == "dprice") { static const int dp[] = {QS_PRICE_DDANTZIG, QS_PRICE_DSTEEP, QS_PRICE_DMULTPARTIAL, QS_PRICE_DDEVEX}; int val = dp[modn(v, 4)]; rv = mpq_QSset_param(o->p, QS_PARAM_DUAL_PRICING, val); o->iparam[QS_PARAM_DUAL_PRICING] = val; }
	else if (what == "display") { int val = modn(v, 4); rv = mpq_QSset_param(o->p, QS_PARAM_SIMPLEX_DISPLAY, val); o->iparam[QS_PARAM_SIMPLEX_DISPLAY] = val; }
	else if (what == "scaling") { int val = modn(v, 2); rv = mpq_QSset_param(o->p, QS_PARAM_SIMPLEX_SCALING, val); o->iparam[QS_PARAM_SIMPLEX_SCALING] = val; }
	else if (what == "precision") { static const unsigned pr[] = {64, 128, 192, 256, 512, 1024}; cur_precision = pr[modn(v, 6)]; QSexact_set_precision(cur_precision); }
	else if (what == "maxiter") { int val = 200000 + (int)modn(v, 1000) * 13; rv = mpq_QSset_param(o->p, QS_PARAM_SIMPLEX_MAX_ITERATIONS, val); o->iparam[QS_PARAM_SIMPLEX_MAX_ITERATIONS] = val; o->limits_default = false; }
	else if (what == "maxtime" || what == "objulim" || what == "objllim") {   // limits far beyond anything a run meets: they are parameters a copy has to carry (C16) and a getter has to give back (C06)
		int w = what == "maxtime" ? QS_PARAM_SIMPLEX_MAX_TIME : what == "objulim" ? QS_PARAM_OBJULIM : QS_PARAM_OBJLLIM;
		Q val = what == "maxtime" ? Q(400000 + modn(v, 1000)) : Q(0);
		if (what == "maxtime" && modn(v, 4) == 0) { mpz_class big; mpz_ui_pow_ui(big.get_mpz_t(), 10, 200); val = Q(1) / Q(big); o->tiny_maxtime = true; }   // positive, but zero as a double: every solve of this object is an interrupted one from here on if (what != "maxtime") { mpz_class big; mpz_ui_pow_ui(big.get_mpz_t(), 10, 140); val = Q(big) + modn(v, 1000); if (what == "objllim") val = -val; }
		QArr t(2); mpq_set(t.at(0), val.get_mpq_t()); rv = mpq_QSset_param_EGlpNum(o->p, w, t.at(0)); o->limits_default = false;
		after_lib_call("param"); T(strf("  param %s rv=%d", what.c_str(), rv));
		if (rv) violate("C06", "setparam-failed:" + what, "valid parameter value rejected");
		else if (what == "maxtime" && o->tiny_maxtime && modn(v, 4) == 0) probe("param.tiny_maxtime");   // the time limit is kept as a double: 1e-200 comes back as the nearest one
		else if (mpq_QSget_param_EGlpNum(o->p, w, t.ptr(1)) || lib_to_q(t.at(1)) != val) violate("C06", "getparam-mismatch:" + what, "set " + qstr(val) + ", read back " + qstr(lib_to_q(t.at(1))));
		signature("param:" + what); return; }
	else { T("  unknown param (skipped)"); return; }
	after_lib_call("param");
	T(strf("  param %s rv=%d", what.c_str(), rv));
	if (rv) violate("C06", "setparam-failed:" + what, "valid parameter value rejected");
	else if (what != "precision") { int w = what == "pprice" ? QS_PARAM_PRIMAL_PRICING : what == "dprice" ? QS_PARAM_DUAL_PRICING : what == "display" ? QS_PARAM_SIMPLEX_DISPLAY : what == "maxiter" ? QS_PARAM_SIMPLEX_MAX_ITERATIONS : QS_PARAM_SIMPLEX_SCALING;
		int got = -1; if (mpq_QSget_param(o->p, w, &got) || got != o->iparam[w]) violate("C06", "getparam-mismatch:" + what, strf("set %d, read back %d", o->iparam[w], got)); }
	signature("param:" + what);
}

// shared epilogue of every invalid-argument twin (C07)
void Exec::invalid_epilogue(Obj &o, const std::string &what, int rv, const std::string &before, bool rejected_ok) {
	after_lib_call("invalid");
	T(strf("  invalid %s rv=%d", what.c_str(), rv));
	signature("invalid:" + what + ":" + o.life);
	if (!o.m.cols.empty() || !o.m.rows.empty()) nontrivial("C07");
	if (rv == 0 && rejected_ok) { violate("C07", "accepted:" + what, "invalid argument was accepted (returned 0)"); }
	std::string after = snapshot(o);
	if (after != before) {
		std::vector<std::string> la = split(before, '\n'), lb = split(after, '\n'); std::string d;
		for (size_t i = 0; i < std::max(la.size(), lb.size()); i++) { std::string x = i < la.size() ? la[i] : "<none>", y = i < lb.size() ? lb[i] : "<none>"; if (x != y) { d = "before: " + x + " | after: " + y; break; } }
		violate("C07", "changed:" + what, "rejected call changed the observable problem: " + d);
		o.broken = true;
	}
}
