// Plans are the unit of execution and the replay format (DESIGN.md 3.2).
// A plan is a list of text lines; it holds no GMP objects so it can live outside QSexactStart/Clear.
//
//   qsim-plan 1
//   profile <name>
//   knob <name> <value>
//   lp <id> <min|max>
//   c <lpid> <name> <obj> <lo> <up> <int>
//   r <lpid> <name> <sense> <rhs> <range> <j>:<v> ...
//   op <client> <kind> k=v ...
//   f <kind> k=v ...                 (fault attached to the preceding op)
//
// Every index is interpreted modulo what is valid at execution time, so deleting lines keeps a plan meaningful.
#pragma once
#include <string>
#include <vector>
#include <map>
#include "util.hpp"

typedef std::map<std::string, std::string> Args;

struct Fault { std::string kind; Args a; };
struct Op { int client = 0; std::string kind; Args a; std::vector<Fault> faults;
	bool has(const std::string &k) const { return a.count(k) != 0; }
	std::string s(const std::string &k, const std::string &d = "") const { auto it = a.find(k); return it == a.end() ? d : it->second; }
	long i(const std::string &k, long d = 0) const { auto it = a.find(k); if (it == a.end()) return d; return strtol(it->second.c_str(), 0, 10); }
	const Fault *fault(const std::string &kind) const { for (auto &f : faults) if (f.kind == kind) return &f; return 0; }
};
inline long fi(const Fault &f, const std::string &k, long d = 0) { auto it = f.a.find(k); if (it == f.a.end()) return d; return strtol(it->second.c_str(), 0, 10); }
inline std::string fs(const Fault &f, const std::string &k, const std::string &d = "") { auto it = f.a.find(k); return it == f.a.end() ? d : it->second; }

struct PlanCol { std::string name, obj, lo, up; int isint = 0; };
struct PlanRow { std::string name; char sense = 'L'; std::string rhs, range; std::vector<std::pair<int, std::string>> nz; };
struct PlanLP { int id = 0; int objsense = 1; std::vector<PlanCol> cols; std::vector<PlanRow> rows; };

struct Plan {
	std::string profile = "hist";
	Args knobs;
	std::vector<PlanLP> lps;
	std::vector<Op> ops;
	std::string knob(const std::string &k, const std::string &d = "") const { auto it = knobs.find(k); return it == knobs.end() ? d : it->second; }
	long knobi(const std::string &k, long d = 0) const { auto it = knobs.find(k); return it == knobs.end() ? d : strtol(it->second.c_str(), 0, 10); }
	std::string text() const;
	bool parse(const std::string &text, std::string *err);
};
