#include "exec.hpp"
void Exec::op_lu(Client &) { T("  (lu ops not built yet)"); }
void Exec::op_esolver(Client &) { T("  (cli ops not built yet)"); }
