#include "exec.hpp"
