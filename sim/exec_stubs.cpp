#include "exec.hpp"
void Exec::op_write(Client &) { T("  (io ops not built yet)"); }
void Exec::op_read(Client &) { T("  (io ops not built yet)"); }
void Exec::op_damage(Client &) { T("  (io ops not built yet)"); }
void Exec::op_foreign(Client &) { T("  (io ops not built yet)"); }
void Exec::op_wbasis(Client &) { T("  (io ops not built yet)"); }
void Exec::op_rbasis(Client &) { T("  (io ops not built yet)"); }
void Exec::op_lu(Client &) { T("  (lu ops not built yet)"); }
void Exec::op_esolver(Client &) { T("  (cli ops not built yet)"); }
