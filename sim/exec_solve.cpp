#include "exec.hpp"
#include "shim.h"
#include <algorithm>

static QSbasis *to_lib_basis(const StoredBasis &b) {
	QSbasis *B = (QSbasis *)calloc(1, sizeof(QSbasis));
	B->nstruct = (int)b.cstat.size(); B->nrows = (int)b.rstat.size();
	B->cstat = (char *)malloc(b.cstat.size() + 1); B->rstat = (char *)malloc(b.rstat.size() + 1);
	memcpy(B->cstat, b.cstat.data(), b.cstat.size()); memcpy(B->rstat, b.rstat.data(), b.rstat.size());
	return B;
}
static void free_lib_basis(QSbasis *B) { if (!B) return; free(B->cstat); free(B->rstat); free(B); }

static bool recoverable_kind(const std::string &k) { return k == "flt.fail" || k == "flt.perturb" || k == "flt.vec" || k == "flt.basis" || k == "flt.status" || k == "flt.iter0"; }

Exec::SolveOut Exec::raw_solve(mpq_QSprob p, const std::string &how, int algo, bool wantx, bool wanty, const StoredBasis *warm, bool want_basis) {
	SolveOut so; int n = mpq_QSget_colcount(p), m = mpq_QSget_rowcount(p);
	if (how == "exact") {
		QArr x(n + m + 1), y(m + 1);
		QSbasis *eb = 0;
		if (warm || want_basis) { eb = warm ? to_lib_basis(*warm) : (QSbasis *)calloc(1, sizeof(QSbasis)); }
		so.rv = QSexact_solver(p, wantx ? x.p() : 0, wanty ? y.p() : 0, eb, algo, &so.status);
		if (so.rv == 0 && so.status == QS_LP_OPTIMAL) {
			if (wantx) { so.have_x = true; so.x.resize(n + m); for (int k = 0; k < n + m; k++) so.x[k] = lib_to_q(x.at(k)); }
			if (wanty) { so.have_y = true; so.y.resize(m); for (int i = 0; i < m; i++) so.y[i] = lib_to_q(y.at(i)); }
		} else if (so.rv == 0 && so.status == QS_LP_INFEASIBLE && wanty) { so.have_y = true; so.y.resize(m); for (int i = 0; i < m; i++) so.y[i] = lib_to_q(y.at(i)); }
		if (eb) { if (eb->cstat && eb->rstat && (eb->nstruct || eb->nrows)) { so.have_basis = true; so.basis.cstat.assign(eb->cstat, eb->nstruct); so.basis.rstat.assign(eb->rstat, eb->nrows); so.basis.origin = "exact"; } free_lib_basis(eb); }
	} else {
		if (warm) { std::string cs = warm->cstat, rs = warm->rstat; cs.push_back(0); rs.push_back(0); int lr = mpq_QSload_basis_array(p, &cs[0], &rs[0]); T(strf("  warm load_basis_array rv=%d", lr)); }
		so.rv = how == "primal" ? mpq_QSopt_primal(p, &so.status) : mpq_QSopt_dual(p, &so.status);
		if (so.rv == 0 && so.status == QS_LP_INFEASIBLE) { QArr y(m + 1); if (!mpq_QSget_infeas_array(p, y.p())) { so.have_y = true; so.y.resize(m); for (int i = 0; i < m; i++) so.y[i] = lib_to_q(y.at(i)); } }
		if (want_basis) { std::vector<char> cs(n + 1, 0), rs(m + 1, 0); if (!mpq_QSget_basis_array(p, cs.data(), rs.data())) { so.have_basis = true; so.basis.cstat.assign(cs.data(), n); so.basis.rstat.assign(rs.data(), m); so.basis.origin = how; } }
	}
	return so;
}

void Exec::op_solve(Client &c) {
	Obj *o = pick_obj(c, op->i("o")); if (!o || o->broken) { T("  skip"); return; }
	std::string how = op->s("how", "exact");
	if (avoiding("solve_empty_dim") && (o->m.cols.empty() || o->m.rows.empty())) { T("  skip (known finding shape: solve without rows or columns)"); return; } if (how != "exact" && how != "primal" && how != "dual") how = "exact";
	int algo = op->i("algo", 1) == 2 ? DUAL_SIMPLEX : PRIMAL_SIMPLEX;
	bool wantx = op->i("wantx", 1), wanty = op->i("wanty", 1), wantb = op->i("wantb", 1);
	const StoredBasis *warm = 0; StoredBasis warmcopy;
	if (op->has("warm") && !c.bases.empty()) {
		const StoredBasis &b = c.bases[modn(op->i("warm"), (long)c.bases.size())];
		if (b.cstat.size() == o->m.cols.size() && b.rstat.size() == o->m.rows.size()) { warmcopy = b; warm = &warmcopy; }
	}
	snapshot_others(o);
	// interruption faults are public-API settings made for this call and undone afterwards
	bool interrupted = o->tiny_maxtime, faulted = false; int saved_iter = 0; bool iter_set = false, time_set = false;
	QArr tq(2);
	if (const Fault *f = op->fault("iter.limit")) { long nn = fi(*f, "n", 1); if (nn < 1) nn = 1; mpq_QSget_param(o->p, QS_PARAM_SIMPLEX_MAX_ITERATIONS, &saved_iter); if (!mpq_QSset_param(o->p, QS_PARAM_SIMPLEX_MAX_ITERATIONS, (int)nn)) { iter_set = true; interrupted = true; } }
	if (const Fault *f = op->fault("clk.limit")) { mpq_QSget_param_EGlpNum(o->p, QS_PARAM_SIMPLEX_MAX_TIME, tq.ptr(1)); mpq_set_ui(tq.at(0), 500, 1); if (!mpq_QSset_param_EGlpNum(o->p, QS_PARAM_SIMPLEX_MAX_TIME, tq.at(0))) { time_set = true; interrupted = true; world.limit_at_read = fi(*f, "at", 0); world.jump = 1000.0; } }
	if (const Fault *f = op->fault("cancel.abort")) { long skip = fi(*f, "skip", 20); if (skip < 10) skip = 10; mpq_QSset_reporter(o->p, (int)skip, (void *)sim_reporter, 0); o->reporter_installed = true; world.cancel_at = fi(*f, "at", 0); interrupted = true; }
	std::vector<std::string> fkinds; bool all_recoverable = true; int max_fault_stage = -1;
	for (auto &f : op->faults) if (starts_with(f.kind, "flt.")) { faulted = true; fkinds.push_back(f.kind); if (!recoverable_kind(f.kind)) all_recoverable = false; long s = fi(f, "stage", -1); if (s < 0) all_recoverable = false; else max_fault_stage = std::max(max_fault_stage, (int)s); }
	if (how != "exact") faulted = false;
	world.cur_model = &o->m;
	std::string life_before = o->life;
	if (how == "exact") QSexact_set_precision(cur_precision);   // the start precision is a per-call knob of the plan, not a leftover of earlier solves
	int it_before = 0, it_after = 0, it_limit = 0; int ph0[4] = {0, 0, 0, 0}, ph1[4] = {0, 0, 0, 0}; mpq_QSget_itcnt(o->p, &ph0[0], &ph0[1], &ph0[2], &ph0[3], &it_before); mpq_QSget_param(o->p, QS_PARAM_SIMPLEX_MAX_ITERATIONS, &it_limit);
	SolveOut so = raw_solve(o->p, how, algo, wantx, wanty, warm, wantb);
	mpq_QSget_itcnt(o->p, &ph1[0], &ph1[1], &ph1[2], &ph1[3], &it_after);
	// ITER_LIMIT although the simplex made far fewer pivots than the limit allows: it gave up (restart cap, "excess infeasibility")
	std::string nd_suffix = (how != "exact" && so.rv == 0 && so.status == QS_LP_ITER_LIMIT && it_after - it_before < it_limit / 2) ? ":gave-up-early" : "";
	// ... or it really used the pivots up: say in which phase they went (a run that stalls in one phase makes no progress there)
	if (nd_suffix.empty() && how != "exact" && so.rv == 0 && so.status == QS_LP_ITER_LIMIT) { static const char *pn[4] = {"pI", "pII", "dI", "dII"}; int best = 0; for (int k = 1; k < 4; k++) if (ph1[k] - ph0[k] > ph1[best] - ph0[best]) best = k; nd_suffix = std::string(":stalled-") + pn[best]; }
	world.cur_model = 0; world.limit_at_read = -1; world.cancel_at = -1;
	if (world.ladder_cut_in_op) { interrupted = true; probe("ladder.cut"); }   // the top rungs ran out of simulated time: judged like any other limit
	if (iter_set) mpq_QSset_param(o->p, QS_PARAM_SIMPLEX_MAX_ITERATIONS, saved_iter);
	if (time_set) mpq_QSset_param_EGlpNum(o->p, QS_PARAM_SIMPLEX_MAX_TIME, tq.at(1));
	after_lib_call("solve:" + how);
	int stages = (int)world.stages.size();
	std::string ladder; for (auto &s : world.stages) { ladder += strf("[%s%u:%s", s.kind ? "mpf" : "dbl", s.prec, status_name(s.real_status).c_str()); if (s.told_status != s.real_status) ladder += ">" + status_name(s.told_status); for (auto &k : s.faults) ladder += "!" + k.substr(4); ladder += "]"; }
	T(strf("  solve obj%d %dx%d %s algo=%d rv=%d status=%s stages=%d %s", o->uid, (int)o->m.rows.size(), (int)o->m.cols.size(), how.c_str(), algo, so.rv, status_name(so.status).c_str(), stages, ladder.c_str()));
	{ Fnv h; for (auto &q : so.x) h.add(qstr(q)); for (auto &q : so.y) h.add(qstr(q)); if (so.have_basis) { h.add(so.basis.cstat); h.add(so.basis.rstat); } T("  out-digest " + hex64(h.h)); }
	if (!world.copy_mismatch.empty()) violate("C16", "reduced-copy-differs:" + std::string(world.copy_mismatch.substr(0, 8)), world.copy_mismatch, false);
	// probes
	if (how == "exact") {
		probe(strf("ladder.stages.%d", stages > 3 ? 9 : stages));
		if (world.log_marks.count("Retesting solution")) probe("ladder.rational_retest");
		if (world.log_marks.count("Re-using previous basis")) probe("ladder.basis_reused");
		if (stages >= 13) probe("ladder.walked_whole");
		if (faulted && so.rv == 0 && definitive(so.status)) probe("ladder.definitive_after_fault");
	}
	if (interrupted && so.rv == 0 && !definitive(so.status)) probe("solve.interrupted");
	bool faults_before_last = faulted && all_recoverable && max_fault_stage < stages - 1 && max_fault_stage <= 8;
	std::string stageset; { std::set<std::string> ss; for (auto &st : world.stages) ss.insert(status_name(st.real_status)); for (auto &x : ss) stageset += (stageset.empty() ? "" : "+") + x; }
	bool empty_lp = o->m.cols.empty() && o->m.rows.empty();
	signature("solve:" + how + ":" + life_before + ":" + status_name(so.status) + strf(":rv%d:", so.rv != 0) + ladder.substr(0, 80));

	judge_solve(*o, so, how, interrupted, faulted);
	// C02 through the other channel: whenever QSget_infeas_array succeeds after a solve - whatever status the solve ended with - what it hands out is a certificate
	if (!stop && !o->broken && !o->m.rows.empty()) { int mm = (int)o->m.rows.size(); QArr gy(mm); int r_y = mpq_QSget_infeas_array(o->p, gy.p()); after_lib_call("accessor");
		if (!r_y) { std::vector<Q> yv(mm); for (int i = 0; i < mm; i++) yv[i] = lib_to_q(gy.at(i)); Verdict fv = check_farkas(o->m, yv); probe("c02.getter_served");
			if (!fv.ok && !(faulted && how == "exact" && so.status == QS_LP_INFEASIBLE)) violate("C02", "getter-cert:" + how + ":" + status_name(so.status) + (faulted ? ":faulted" : ""), "after a solve that ended " + status_name(so.status) + " QSget_infeas_array succeeds with multipliers that prove nothing: " + fv.why); } }
	if (stop || o->broken) { compare_others("solve"); return; }

	// C03: bounded liveness of the retry ladder / plain truth
	bool c03_applies = how == "exact" && !interrupted && o->limits_default && (!faulted || faults_before_last) && o->m.well_formed() && o->m.moderate() && !(o->m.cols.empty() && o->m.rows.empty());
	if (c03_applies) {
		nontrivial("C03");
		std::string cls = faulted ? "ladder-recovery" : "plain";
		if (so.rv != 0 || !definitive(so.status)) { const RefResult &t = truth(o->m); std::string tn = (t.status && t.err.empty()) ? status_name(t.status) : "unknown";
			if (tn == "unknown") probe("c03.nondefinitive_without_reference");   // C03 quantifies over LPs the reference solver classifies (up to 10x10)
			else violate("C03", cls + ":non-definitive:" + status_name(so.status) + strf(":rv%d", so.rv != 0) + ":truth-" + tn + ":stages-" + stageset, strf("exact solver with default limits returned rv=%d status %s %s; the reference solver finds the LP %s", so.rv, status_name(so.status).c_str(), ladder.c_str(), tn.c_str())); }
	}
	// C04: the direct rational simplex, left alone under default limits, arrives at the answer too (a way of driving the library that
	// never gets to a definitive status does not give "the same" status as the others)
	if (how != "exact" && !interrupted && o->limits_default && o->m.well_formed() && o->m.moderate() && !empty_lp && (so.rv != 0 || !definitive(so.status))) {
		const RefResult &t = truth(o->m);
		if (!(t.status && t.err.empty()) && so.rv == 0) { Outcome oc; oc.how = how; oc.config = strf("%s:pp%d:dp%d:sc%d:w%d", how.c_str(), o->iparam.count(QS_PARAM_PRIMAL_PRICING) ? o->iparam[QS_PARAM_PRIMAL_PRICING] : 0, o->iparam.count(QS_PARAM_DUAL_PRICING) ? o->iparam[QS_PARAM_DUAL_PRICING] : 0, o->iparam.count(QS_PARAM_SIMPLEX_SCALING) ? o->iparam[QS_PARAM_SIMPLEX_SCALING] : -1, warm ? 1 : 0); oc.status = so.status; oc.step = step; oc.note = nd_suffix; stuck[o->m.canon()].push_back(oc); }
		if (t.status && t.err.empty()) violate("C04", "plain:non-definitive:" + how + ":" + status_name(so.status) + nd_suffix + strf(":rv%d", so.rv != 0) + ":truth-" + status_name(t.status), strf("%s simplex with default limits and no interruption returned rv=%d status %s; the LP is %s [pp%d dp%d sc%d warm%d %s]", how.c_str(), so.rv, status_name(so.status).c_str(), status_name(t.status).c_str(),
			o->iparam.count(QS_PARAM_PRIMAL_PRICING) ? o->iparam[QS_PARAM_PRIMAL_PRICING] : 0, o->iparam.count(QS_PARAM_DUAL_PRICING) ? o->iparam[QS_PARAM_DUAL_PRICING] : 0, o->iparam.count(QS_PARAM_SIMPLEX_SCALING) ? o->iparam[QS_PARAM_SIMPLEX_SCALING] : -1, warm ? 1 : 0, life_before.c_str()));
	}
	// truth on small LPs (C03 for the exact driver under default limits, C04 for every other way of driving)
	if (so.rv == 0 && definitive(so.status) && o->m.well_formed()) {
		const RefResult &t = truth(o->m);
		Q val; bool have_val = false; if (so.status == QS_LP_OPTIMAL) { QArr v(1); if (!mpq_QSget_objval(o->p, v.p())) { val = lib_to_q(v.at(0)); have_val = true; } }
		std::string cfg = how + strf(":a%d:pp%d:dp%d:sc%d:w%d:%s", algo, o->iparam.count(QS_PARAM_PRIMAL_PRICING) ? o->iparam[QS_PARAM_PRIMAL_PRICING] : 0, o->iparam.count(QS_PARAM_DUAL_PRICING) ? o->iparam[QS_PARAM_DUAL_PRICING] : 0,
			o->iparam.count(QS_PARAM_SIMPLEX_SCALING) ? o->iparam[QS_PARAM_SIMPLEX_SCALING] : -1, warm ? 1 : 0, life_before.c_str());
		const char *prop = c03_applies ? "C03" : "C04";
		bool judge_truth = (c03_applies || !faulted || faults_before_last) && !empty_lp;   // a lie in the final stage is not correctable by design
		if (t.status && t.err.empty() && judge_truth) {
			if (t.status != so.status) violate(prop, std::string(faulted ? "ladder-recovery" : "plain") + ":wrong-status:" + how + ":" + status_name(so.status) + "-truth-" + status_name(t.status), "status " + status_name(so.status) + " but the LP is " + status_name(t.status) + " [" + cfg + "] " + ladder);
			else if (so.status == QS_LP_OPTIMAL && have_val && val != t.value) violate(prop, std::string(faulted ? "ladder-recovery" : "plain") + ":wrong-value:" + how, "value " + qstr(val) + " but the true optimum is " + qstr(t.value) + " [" + cfg + "] " + ladder);
			else { if (!c03_applies) nontrivial("C04"); probe("truth.agreed"); }
		}
		if (judge_truth) { Outcome oc; oc.how = how; oc.config = cfg; oc.status = so.status; oc.value = have_val ? val : Q(0); oc.step = step; outcomes[o->m.canon()].push_back(oc); }
	}
	// C05(a): same answer as a freshly built copy of the current LP
	bool costly = how == "exact" && stages >= 13 && (step % 4) != 0;   // whole-ladder walks are re-done by the fresh solve: sample them
	if (!stop && !costly && so.rv == 0 && definitive(so.status) && plan.knobi("fresh", 1) && (o->ever_solved || o->ever_interrupted || life_before == "edited" || life_before == "verdict")) fresh_compare(*o, so, how, algo);
	o->ever_solved = true; if (interrupted && !definitive(so.status)) o->ever_interrupted = true;
	o->last_status = so.status; o->edited_since_solve = false;
	o->life = so.rv == 0 && so.status == QS_LP_OPTIMAL ? "optimal" : (so.rv == 0 && definitive(so.status)) ? "other" : "interrupted";
	if (so.have_basis) c.bases.push_back(so.basis);
	if (c.bases.size() > 8) c.bases.erase(c.bases.begin());
	compare_others("solve");
	check_dump(*o, "after-solve");
}

void Exec::judge_solve(Obj &o, const SolveOut &so, const std::string &how, bool interrupted, bool faulted) {
	(void)interrupted;
	int n = (int)o.m.cols.size(), m = (int)o.m.rows.size();
	if (so.rv != 0) return;
	std::string ctx = how + (faulted ? ":faulted" : "");
	if (so.status == QS_LP_OPTIMAL) {
		// C01 on the out-parameters of the exact driver
		if (so.have_x && so.have_y) {
			std::vector<Q> xs(so.x.begin(), so.x.begin() + n), sl(so.x.begin() + n, so.x.end());
			Verdict v = check_optimal(o.m, xs, so.y, 0, &sl, 0);
			if (!v.ok) { violate("C01", "outparam-cert:" + ctx, v.why); return; }
			nontrivial("C01");
			if (faulted) probe("c01.optimal_after_fault");
		}
		check_accessors(o, "after-solve", true);
		if (stop) return;
		// C12: the basis handed back
		StoredBasis b; bool have = so.have_basis; if (have) b = so.basis; else have = get_basis(o, b);
		// a float stage that hands over (x, y) from one basis and another basis is not realisable (the vectors are computed from the basis);
		// flt.basis only serves to exercise the driver's fallback paths, the returned basis is not judged when it fired
		bool fabricated_basis = false; for (auto &st : world.stages) for (auto &k : st.faults) if (k == "flt.basis") fabricated_basis = true;
		if (fabricated_basis) probe("c12.skipped_fabricated_basis");
		if (have && !fabricated_basis && (int)b.cstat.size() == n && (int)b.rstat.size() == m) {
			BasisEval e = eval_basis(o.m, b.cstat, b.rstat);
			if (!e.counts_ok) violate("C12", "basis-counts:" + ctx, "basis returned with OPTIMAL does not have exactly one basic variable per row: " + b.cstat + "|" + b.rstat);
			else if (!e.singular) {
				QArr v(1); Q val; bool hv = !mpq_QSget_objval(o.p, v.p()); if (hv) val = lib_to_q(v.at(0));
				if (!e.primal_feasible || !e.dual_feasible) violate("C12", std::string("basis-not-optimal:") + (e.primal_feasible ? "" : "P") + (e.dual_feasible ? "" : "D") + ":" + ctx, "basis handed back with OPTIMAL is not an optimal basis: " + b.cstat + "|" + b.rstat);
				else if (hv && e.pobj != val) violate("C12", "basis-value:" + ctx, "basic solution value " + qstr(e.pobj) + " != reported " + qstr(val));
				else { nontrivial("C12");
					// "its exact basic solution is the reported optimal solution": the x handed out (out-parameter of the exact driver, accessor otherwise)
					std::vector<Q> xs; if (so.have_x) xs.assign(so.x.begin(), so.x.begin() + n); else { QArr xa(n ? n : 1); if (!mpq_QSget_x_array(o.p, xa.p())) { xs.resize(n); for (int j = 0; j < n; j++) xs[j] = lib_to_q(xa.at(j)); } }
					bool lied = false; for (auto &st : world.stages) if (!st.faults.empty()) lied = true;   // vectors a float stage was made to lie about do not belong to its basis
					if (lied) probe("c12.skipped_basis_solution_after_float_fault");
					else if ((int)xs.size() == n && xs != e.x) violate("C12", "basis-solution:" + ctx, "the reported x is not the basic solution of the basis handed back with it (" + b.cstat + "|" + b.rstat + ")"); }
			} else probe("c12.singular_basis_returned");
		}
	} else if (so.status == QS_LP_INFEASIBLE) {
		if (so.have_y) {
			int orient = 0; Verdict v = check_farkas(o.m, so.y, &orient);
			if (!v.ok) { violate("C02", std::string(how == "exact" ? "farkas:" : "farkas-simplex:") + ctx, v.why); return; }
			nontrivial("C02"); probe(orient > 0 ? "c02.orientation_lib" : "c02.orientation_neg");
			if (faulted) probe("c02.infeasible_after_fault");
		}
		if (o.m.well_formed()) { const RefResult &t = truth(o.m); if (t.status && t.err.empty() && t.status != QS_LP_INFEASIBLE && (!faulted)) violate("C02", "infeasible-but-feasible:" + ctx, "INFEASIBLE reported for an LP the reference solver finds " + status_name(t.status)); }
	}
	(void)m;
}

void Exec::fresh_compare(Obj &o, const SolveOut &so, const std::string &how, int algo) {
	std::string err; static const char *hows[] = {"build", "build1", "colwise", "load"};
	mpq_QSprob q = lib_build(o.m, hows[modn(step, 4)], &err);
	if (!q) { res.harness_error = "fresh build failed: " + err; return; }
	const Op *saved = world.cur_op; world.cur_op = 0;   // the reference solve is fault-free
	if (how == "exact") QSexact_set_precision(128);
	SolveOut fo = raw_solve(q, how, algo, false, false, 0, false);
	Q fval; bool fhv = false; if (fo.rv == 0 && fo.status == QS_LP_OPTIMAL) { QArr v(1); if (!mpq_QSget_objval(q, v.p())) { fval = lib_to_q(v.at(0)); fhv = true; } }
	mpq_QSfree_prob(q);
	world.cur_op = saved;
	after_lib_call("fresh");
	Q val; bool hv = false; if (so.status == QS_LP_OPTIMAL) { QArr v(1); if (!mpq_QSget_objval(o.p, v.p())) { val = lib_to_q(v.at(0)); hv = true; } }
	T(strf("  fresh %s rv=%d status=%s", how.c_str(), fo.rv, status_name(fo.status).c_str()));
	nontrivial("C05");
	std::string ctx = how + ":" + (op && op->kind == "solve" ? o.life : "?");
	if (fo.rv != 0 || !definitive(fo.status)) { probe("c05.fresh_not_definitive"); return; }
	if (fo.status != so.status) violate("C05", "resolve-status:" + status_name(so.status) + "-fresh-" + status_name(fo.status) + ":" + how, "re-solve after history gave " + status_name(so.status) + ", a fresh build of the current LP gives " + status_name(fo.status));
	else if (hv && fhv && val != fval) violate("C05", "resolve-value:" + how, "re-solve after history gave " + qstr(val) + ", a fresh build gives " + qstr(fval));
}

// ------------------------------------------------------------------ bases
StoredBasis make_basis_pattern(const LP &m, long pat) {
	// deterministic "arbitrary valid" basis: choose nrows basic among structurals+logicals, legal non-basic statuses
	size_t n = m.cols.size(), mr = m.rows.size(); StoredBasis b; b.cstat.assign(n, '0'); b.rstat.assign(mr, '0'); b.origin = "made";
	for (size_t j = 0; j < n; j++) { const MCol &c = m.cols[j]; bool up_first = ((pat >> (j % 20)) & 1) != 0;
		if (c.lo.fin() && c.up.fin()) b.cstat[j] = up_first ? '2' : '0'; else if (c.lo.fin()) b.cstat[j] = '0'; else if (c.up.fin()) b.cstat[j] = '2'; else b.cstat[j] = '3'; }
	for (size_t i = 0; i < mr; i++) b.rstat[i] = (m.rows[i].sense == 'R' && ((pat >> (i % 13)) & 1)) ? '2' : '0';
	if (pat == -1) { for (size_t j = 0; j < n; j++) if (b.cstat[j] == '2' && m.cols[j].lo.fin()) b.cstat[j] = '0'; for (size_t i = 0; i < mr; i++) b.rstat[i] = '1'; return b; }   // the all-slack basis
	uint64_t s = (uint64_t)pat * 2654435761u + 12345; size_t need = mr, tot = n + mr; std::vector<int> order(tot); for (size_t k = 0; k < tot; k++) order[k] = (int)k;
	for (size_t k = tot; k > 1; k--) { s = Rng::mix(s); std::swap(order[k - 1], order[s % k]); }
	// bias: with probability ~1/2 start from the slack basis and swap a few
	if ((pat & 3) == 0) { for (size_t i = 0; i < mr; i++) b.rstat[i] = '1'; size_t swaps = (size_t)((pat >> 2) % 3) + (n ? 1 : 0); size_t done = 0;
		for (size_t k = 0; k < tot && done < swaps; k++) if (order[k] < (int)n) { size_t out = Rng::mix(s + k) % (mr ? mr : 1); if (mr && b.rstat[out] == '1') { b.rstat[out] = '0'; b.cstat[order[k]] = '1'; done++; } }
		return b; }
	for (size_t k = 0; k < tot && need; k++) { int id = order[k]; if (id < (int)n) b.cstat[id] = '1'; else b.rstat[id - n] = '1'; need--; }
	return b;
}

void Exec::op_basis(Client &c) {
	Obj *o = pick_obj(c, op->i("o")); if (!o || o->broken) { T("  skip"); return; }
	std::string what = op->s("what", "get");
	int n = (int)o->m.cols.size(), m = (int)o->m.rows.size();
	if (const Fault *f = op->fault("api.invalid")) {
		std::string before = snapshot(*o); long v = fi(*f, "v"); int rv = 0; std::string w;
		StoredBasis b = make_basis_pattern(o->m, v);
		auto wb = [&](const StoredBasis &bb) { QSbasis *B = to_lib_basis(bb); world.expected_paths.insert("/sim/inv.bas"); int r = mpq_QSwrite_basis(o->p, B, "/sim/inv.bas"); free_lib_basis(B); return r; };
		// a wrong-size basis that is consistent in itself: as many basic variables as it claims rows, "at upper" only on rows the problem has ranged
		auto rebalance = [&](StoredBasis &bb) { long want = (long)bb.rstat.size(), have = 0; for (char ch : bb.cstat) have += ch == '1'; for (char ch : bb.rstat) have += ch == '1';
			for (size_t i = 0; i < bb.rstat.size() && have < want; i++) if (bb.rstat[i] != '1') { bb.rstat[i] = '1'; have++; }
			for (auto &ch : bb.cstat) if (have < want && ch != '1') { ch = '1'; have++; }
			for (auto &ch : bb.cstat) if (have > want && ch == '1') { ch = '0'; have--; }
			for (auto &ch : bb.rstat) if (have > want && ch == '1') { ch = '0'; have--; }
			for (size_t i = 0; i < bb.rstat.size(); i++) if (bb.rstat[i] == '2' && (i >= (size_t)m || o->m.rows[i].sense != 'R')) bb.rstat[i] = '0'; };
		switch (modn(v, 10)) {
		case 8: { w = "loadbasis:size-both"; if (m == 0) { T("  skip"); return; } StoredBasis bb = b; int k = 1 + modn(v / 10, m); for (int t = 0; t < k; t++) { bb.rstat.pop_back(); bb.cstat.push_back('0'); } rebalance(bb); QSbasis *B = to_lib_basis(bb); rv = mpq_QSload_basis(o->p, B); free_lib_basis(B); break; }   // k columns more, k rows less: the total is right
		case 9: { w = "loadbasis:size-both"; if (n == 0) { T("  skip"); return; } StoredBasis bb = b; int k = 1 + modn(v / 10, n); for (int t = 0; t < k; t++) { bb.cstat.pop_back(); bb.rstat.push_back('1'); } rebalance(bb); QSbasis *B = to_lib_basis(bb); rv = mpq_QSload_basis(o->p, B); free_lib_basis(B); break; }
		case 5: { w = "writebasis:size-cols"; if (n == 0) { T("  skip"); return; } StoredBasis bb = b; bb.cstat.resize((size_t)modn(v / 10, n)); rv = wb(bb); break; }
		case 6: { w = "writebasis:size-rows"; if (m == 0) { T("  skip"); return; } StoredBasis bb = b; bb.rstat.resize((size_t)modn(v / 10, m)); rv = wb(bb); break; }
		case 7: { w = "writebasis:size-swapped"; if (n == m) { T("  skip"); return; } StoredBasis bb; bb.cstat.assign((size_t)m, '0'); bb.rstat.assign((size_t)n, '1'); rv = wb(bb); break; }
		case 0: { w = "loadbasis:size-cols"; StoredBasis bb = b; bb.cstat.push_back('0'); QSbasis *B = to_lib_basis(bb); rv = mpq_QSload_basis(o->p, B); free_lib_basis(B); break; }
		case 1: { w = "loadbasis:size-rows"; StoredBasis bb = b; if (!bb.rstat.empty()) bb.rstat.pop_back(); else bb.rstat.push_back('1'); QSbasis *B = to_lib_basis(bb); rv = mpq_QSload_basis(o->p, B); free_lib_basis(B); break; }
		case 2: { w = "loadbasis:badchar"; if (n + m == 0) { T("  skip"); return; } StoredBasis bb = b; if (n) bb.cstat[modn(v / 5, n)] = 'x'; else bb.rstat[modn(v / 5, m)] = '7'; QSbasis *B = to_lib_basis(bb); rv = mpq_QSload_basis(o->p, B); free_lib_basis(B); break; }
		case 3: { w = "loadbasis:count"; if (m == 0) { T("  skip"); return; } StoredBasis bb = b; bool done = false; for (auto &ch : bb.cstat) if (ch == '1') { ch = '0'; done = true; break; } if (!done) for (auto &ch : bb.rstat) if (ch == '1') { ch = '0'; done = true; break; } QSbasis *B = to_lib_basis(bb); rv = mpq_QSload_basis(o->p, B); free_lib_basis(B); break; }
		case 4: default: { w = "loadbasisarray:count"; if (m == 0) { T("  skip"); return; } StoredBasis bb = b; bool done = false; for (auto &ch : bb.rstat) if (ch != '1') { ch = '1'; done = true; break; } if (!done) for (auto &ch : bb.cstat) if (ch != '1') { ch = '1'; done = true; break; } if (!done) { T("  skip"); return; }
			bb.cstat.push_back(0); bb.rstat.push_back(0); rv = mpq_QSload_basis_array(o->p, &bb.cstat[0], &bb.rstat[0]); break; }
		}
		invalid_epilogue(*o, w, rv, before); return;
	}
	snapshot_others(o);
	if (what == "get") {
		StoredBasis a; bool ha = get_basis(*o, a);
		QSbasis *B = mpq_QSget_basis(o->p); StoredBasis b; bool hb = B != 0;
		if (B) { b.cstat.assign(B->cstat ? B->cstat : "", B->cstat ? B->nstruct : 0); b.rstat.assign(B->rstat ? B->rstat : "", B->rstat ? B->nrows : 0); mpq_QSfree_basis(B); }
		after_lib_call("getbasis");
		T(strf("  getbasis array=%d struct=%d %s", ha, hb, hb ? (b.cstat + "|" + b.rstat).c_str() : "-"));
		if (ha && hb && (a.cstat != b.cstat || a.rstat != b.rstat)) violate("C06", "getbasis-forms-differ", "QSget_basis and QSget_basis_array disagree: " + a.cstat + "|" + a.rstat + " vs " + b.cstat + "|" + b.rstat);
		if (hb && (int)b.cstat.size() == n && (int)b.rstat.size() == m) { b.origin = "get"; c.bases.push_back(b); }
		signature("getbasis:" + o->life + strf(":%d", hb));
	} else if (what == "make") {
		c.bases.push_back(make_basis_pattern(o->m, op->i("pat"))); T("  made basis " + c.bases.back().cstat + "|" + c.bases.back().rstat);
	} else {   // load / loadarray
		if (c.bases.empty()) { T("  skip (no stored basis)"); compare_others("basis"); return; }
		const StoredBasis &b = c.bases[modn(op->i("k"), (long)c.bases.size())];
		if ((int)b.cstat.size() != n || (int)b.rstat.size() != m) { T("  skip (size mismatch)"); compare_others("basis"); return; }
		BasisEval e = eval_basis(o->m, b.cstat, b.rstat);
		int rv;
		if (what == "loadarray") { std::string cs = b.cstat, rs = b.rstat; cs.push_back(0); rs.push_back(0); rv = mpq_QSload_basis_array(o->p, &cs[0], &rs[0]); }
		else { QSbasis *B = to_lib_basis(b); rv = mpq_QSload_basis(o->p, B); free_lib_basis(B); }
		after_lib_call("loadbasis");
		T(strf("  %s rv=%d counts_ok=%d %s|%s", what.c_str(), rv, e.counts_ok, b.cstat.c_str(), b.rstat.c_str()));
		if (rv == 0) { StoredBasis back; if (get_basis(*o, back) && (back.cstat != b.cstat || back.rstat != b.rstat)) probe("basis.load_readback_differs"); o->life = o->life == "empty" ? "empty" : "edited"; }
		else if (e.counts_ok && [&] { for (size_t i = 0; i < b.rstat.size(); i++) if (b.rstat[i] == '2' && o->m.rows[i].sense != 'R') return false; return true; }()) violate("C06", "loadbasis-rejected-valid", "a basis with valid counts and statuses was rejected: " + b.cstat + "|" + b.rstat);
		signature("loadbasis:" + o->life + strf(":%d", rv != 0));
	}
	compare_others("basis");
	check_dump(*o, "after-basis");
}

// C12 second half: exact verdicts on caller supplied bases
void Exec::op_verdict(Client &c) {
	Obj *o = pick_obj(c, op->i("o")); if (!o || o->broken) { T("  skip"); return; }
	int n = (int)o->m.cols.size(), m = (int)o->m.rows.size();
	if (n == 0 || m == 0) { T("  skip (empty)"); return; }
	StoredBasis b; bool from_store = false;
	if (op->has("k") && !c.bases.empty()) { const StoredBasis &s = c.bases[modn(op->i("k"), (long)c.bases.size())]; if ((int)s.cstat.size() == n && (int)s.rstat.size() == m) { b = s; from_store = true; } }
	if (!from_store) b = make_basis_pattern(o->m, op->i("pat"));
	BasisEval e = eval_basis(o->m, b.cstat, b.rstat);
	if (!e.counts_ok) { T("  skip (invalid counts)"); return; }
	// a stored basis may predate a bound edit and name a bound its column no longer has: not a valid basis of this problem
	for (int j = 0; j < n; j++) { const MCol &mc = o->m.cols[j]; char st = b.cstat[j]; if ((st == '3' && (mc.lo.fin() || mc.up.fin())) || (st == '2' && !mc.up.fin()) || (st == '0' && !mc.lo.fin())) { T("  skip (status names a bound the column does not have)"); probe("c12.skipped_status_without_bound"); return; } }
	for (int i = 0; i < m; i++) if (b.rstat[i] == '2' && o->m.rows[i].sense != 'R') { T("  skip (row at upper that is not ranged)"); return; }
	std::string which = op->s("which", "optimal");
	snapshot_others(o);
	QSbasis *B = to_lib_basis(b); char result = 9; QArr dv(1); int rv = 0; int msg = 100000;
	world.cur_model = &o->m;
	if (which == "optimal") rv = QSexact_basis_optimalstatus(o->p, B, &result, msg);
	else if (which == "dual") rv = QSexact_basis_dualstatus(o->p, B, &result, dv.p(), msg);
	else rv = QSexact_verify(o->p, B, (int)op->i("prestep", 0), 0, 0, &result, dv.p(), msg);
	world.cur_model = 0;
	free_lib_basis(B);
	after_lib_call("verdict:" + which);
	T(strf("  verdict %s rv=%d result=%d singular=%d P=%d D=%d basis=%s|%s", which.c_str(), rv, (int)result, e.singular, e.primal_feasible, e.dual_feasible, b.cstat.c_str(), b.rstat.c_str()));
	signature("verdict:" + which + ":" + o->life + strf(":%d%d%d:%d", e.singular, e.primal_feasible, e.dual_feasible, (int)result));
	o->life = "verdict"; o->edited_since_solve = true;
	if (!world.copy_mismatch.empty()) violate("C16", "reduced-copy-differs:" + std::string(world.copy_mismatch.substr(0, 8)), world.copy_mismatch, false);
	if (rv == 0 && !e.singular) {
		nontrivial("C12");
		if (which == "optimal") { bool want = e.primal_feasible && e.dual_feasible; if ((result != 0) != want) violate("C12", strf("verdict-optimal:says%d-is%d", result != 0, want), "QSexact_basis_optimalstatus answered " + std::to_string((int)result) + " for basis " + b.cstat + "|" + b.rstat); }
		else {
			bool want = e.dual_feasible;
			// QSexact_verify with prestep may certify optimality through a different (float) basis; only "1 although dual infeasible and no optimum" is wrong there
			bool prestep = which == "verify" && op->i("prestep", 0);
			if (!prestep && (result != 0) != want) violate("C12", which + strf(":says%d-is%d", result != 0, want), which + " answered " + std::to_string((int)result) + " for basis " + b.cstat + "|" + b.rstat);
			else if (!prestep && result && want) { Q d = lib_to_q(dv.at(0)); if (d != e.dobj && !(o->m.objsense < 0 && d == -e.dobj)) violate("C12", which + ":dobjval", "reported dual bound " + qstr(d) + " but the dual objective of the basis is " + qstr(e.dobj)); }
			else if (prestep && result) { const RefResult &t = truth(o->m); if (t.status && t.err.empty()) { if (t.status != QS_LP_OPTIMAL && !want) violate("C12", "verify-prestep:claims-without-optimum", "verify reported success but the LP has no optimum and the basis is not dual feasible"); } }
		}
	} else if (rv == 0) probe("c12.singular_basis_supplied");
	compare_others("verdict");
	check_dump(*o, "after-verdict");
	check_accessors(*o, "after-verdict", false);
}

// C13 at API level: rows of B^-1 and of the tableau multiply back exactly
void Exec::op_tableau(Client &c) {
	Obj *o = pick_obj(c, op->i("o")); if (!o || o->broken) { T("  skip"); return; }
	int n = (int)o->m.cols.size(), m = (int)o->m.rows.size();
	if (m == 0) { T("  skip"); return; }
	// known shape: after an exact solve the rational object has a cache but no factorization (DESIGN 6.8)
	std::vector<int> order(m, -1);
	int rv = mpq_QSget_basis_order(o->p, order.data());
	after_lib_call("tableau");
	T(strf("  basis_order rv=%d", rv));
	if (rv) { signature("tableau:unavailable:" + o->life); return; }
	std::set<int> seen; for (int i = 0; i < m; i++) { if (order[i] < 0 || order[i] >= n + m || seen.count(order[i])) { violate("C13", "basis-order-invalid", strf("basis order entry %d = %d", i, order[i])); return; } seen.insert(order[i]); }
	auto colentry = [&](int k, int row) -> Q { if (k < n) { auto it = o->m.rows[row].coef.find(k); return it == o->m.rows[row].coef.end() ? Q(0) : it->second; }
		int lr = k - n; if (lr != row) return Q(0); char s = o->m.rows[lr].sense; return (s == 'L' || s == 'E') ? Q(1) : Q(-1); };
	QArr br(m), tr(n + m);
	int rows_checked = 0;
	for (int i = 0; i < m; i++) {
		int r1 = mpq_QSget_binv_row(o->p, i, br.p()), r2 = mpq_QSget_tableau_row(o->p, i, tr.p());
		if (r1 || r2) { T(strf("  row %d binv rv=%d tableau rv=%d", i, r1, r2)); continue; }
		std::vector<Q> b(m); for (int k = 0; k < m; k++) b[k] = lib_to_q(br.at(k));
		for (int k = 0; k < m; k++) { Q s = 0; for (int r = 0; r < m; r++) s += b[r] * colentry(order[k], r); if (s != (k == i ? 1 : 0)) { violate("C13", "binv-row", strf("row %d of B^-1 times basis column %d gives %s", i, k, qstr(s).c_str())); return; } }
		for (int k = 0; k < n + m; k++) { Q s = 0; for (int r = 0; r < m; r++) s += b[r] * colentry(k, r); if (s != lib_to_q(tr.at(k))) { violate("C13", "tableau-row", strf("tableau row %d entry %d is %s, B^-1 row times column gives %s", i, k, qstr(lib_to_q(tr.at(k))).c_str(), qstr(s).c_str())); return; } }
		rows_checked++;
	}
	after_lib_call("tableau");
	if (rows_checked) { nontrivial("C13"); probe("c13.rows_checked", rows_checked); }
	signature("tableau:" + o->life + strf(":%d", rows_checked > 0));
}

void Exec::op_pivotin(Client &c) {
	Obj *o = pick_obj(c, op->i("o")); if (!o || o->broken) { T("  skip"); return; }
	int n = (int)o->m.cols.size(), m = (int)o->m.rows.size();
	bool rows = op->s("what", "col") == "row";
	int cnt = rows ? m : n; if (cnt == 0) { T("  skip"); return; }
	std::vector<int> list; long a = op->i("a"), k = op->i("cnt", 1); for (long t = 0; t < k && t < cnt; t++) { int v = modn(a + 3 * t, cnt); if (std::find(list.begin(), list.end(), v) == list.end()) list.push_back(v); }
	snapshot_others(o);
	int rv = rows ? mpq_QSopt_pivotin_row(o->p, (int)list.size(), list.data()) : mpq_QSopt_pivotin_col(o->p, (int)list.size(), list.data());
	after_lib_call("pivotin");
	T(strf("  pivotin_%s cnt=%d rv=%d", rows ? "row" : "col", (int)list.size(), rv));
	signature(std::string("pivotin:") + (rows ? "row:" : "col:") + o->life + strf(":%d", rv != 0));
	compare_others("pivotin");
	check_dump(*o, "after-pivotin");
}
