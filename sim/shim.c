/* C shim: the few library macros that do not survive a C++ compiler. */
#ifdef HAVE_CONFIG_H
#include "config.h"
#endif
#include "QSopt_ex.h"
#include "except.h"
#include "logging-private.h"
#include "qs_config.h"
#include "dstruct_mpq.h"
#include "factor_mpq.h"
#include "shim.h"

mpq_t *shim_mpq_alloc(int n) { return mpq_EGlpNumAllocArray(n); }
void shim_mpq_free(mpq_t *a) { mpq_EGlpNumFreeArray(a); }
size_t shim_mpq_size(mpq_t *a) { return __EGlpNumArraySize(a); }
double *shim_dbl_alloc(int n) { return dbl_EGlpNumAllocArray(n); }
void shim_dbl_free(double *a) { dbl_EGlpNumFreeArray(a); }
mpf_t *shim_mpf_alloc(int n) { return mpf_EGlpNumAllocArray(n); }
void shim_mpf_free(mpf_t *a) { mpf_EGlpNumFreeArray(a); }
size_t shim_mpf_size(mpf_t *a) { return __EGlpNumArraySize(a); }

void shim_svector_init(mpq_svector *s) { mpq_ILLsvector_init(s); }
int shim_svector_alloc(mpq_svector *s, int n) { return mpq_ILLsvector_alloc(s, n); }
void shim_svector_free(mpq_svector *s) { mpq_ILLsvector_free(s); }

void shim_factor_initvars(mpq_factor_work *f)
{
	mpq_EGlpNumInitVar(f->fzero_tol);
	mpq_EGlpNumInitVar(f->szero_tol);
	mpq_EGlpNumInitVar(f->partial_tol);
	mpq_EGlpNumInitVar(f->maxelem_orig);
	mpq_EGlpNumInitVar(f->maxelem_factor);
	mpq_EGlpNumInitVar(f->maxelem_cur);
	mpq_EGlpNumInitVar(f->partial_cur);
}
void shim_factor_clearvars(mpq_factor_work *f)
{
	mpq_EGlpNumClearVar(f->fzero_tol);
	mpq_EGlpNumClearVar(f->szero_tol);
	mpq_EGlpNumClearVar(f->partial_tol);
	mpq_EGlpNumClearVar(f->maxelem_orig);
	mpq_EGlpNumClearVar(f->maxelem_factor);
	mpq_EGlpNumClearVar(f->maxelem_cur);
	mpq_EGlpNumClearVar(f->partial_cur);
}
unsigned shim_precision(void) { return EGLPNUM_PRECISION; }
