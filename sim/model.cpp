#include "model.hpp"
#include <algorithm>
#include <set>

// ------------------------------------------------------------------ numbers
std::string qstr(const Q &q) { return q.get_str(); }
std::string numstr(const Num &n) { return n.inf > 0 ? "inf" : n.inf < 0 ? "-inf" : qstr(n.v); }

static bool all_digits(const std::string &s) { if (s.empty()) return false; for (char c : s) if (c < '0' || c > '9') return false; return true; }

static bool parse_int(const std::string &s, mpz_class &z) {
	std::string t = s; bool neg = false;
	if (!t.empty() && (t[0] == '-' || t[0] == '+')) { neg = t[0] == '-'; t = t.substr(1); }
	if (!all_digits(t)) return false;
	z = mpz_class(t, 10); if (neg) z = -z; return true;
}

// accepted: [-]digits[/digits] | [-]digits.digits | [-][a*]2^[-]k[/b]
bool parse_q(const std::string &s, Q &out) {
	if (s.empty()) return false;
	size_t pw = s.find("2^");
	if (pw != std::string::npos) {
		std::string pre = s.substr(0, pw), rest = s.substr(pw + 2), den;
		size_t sl = rest.find('/'); if (sl != std::string::npos) { den = rest.substr(sl + 1); rest = rest.substr(0, sl); }
		mpz_class a = 1;
		if (!pre.empty()) {
			if (pre == "-") a = -1;
			else { if (pre.back() != '*') return false; if (!parse_int(pre.substr(0, pre.size() - 1), a)) return false; }
		}
		mpz_class k; if (!parse_int(rest, k) || !k.fits_sint_p()) return false;
		long kk = k.get_si(); if (kk > 4000 || kk < -4000) return false;
		Q r(a);
		mpz_class p2; mpz_ui_pow_ui(p2.get_mpz_t(), 2, (unsigned long)(kk < 0 ? -kk : kk));
		if (kk >= 0) r *= Q(p2); else r /= Q(p2);
		if (!den.empty()) { mpz_class b; if (!parse_int(den, b) || b == 0) return false; r /= Q(b); }
		out = r; return true;
	}
	size_t sl = s.find('/');
	if (sl != std::string::npos) {
		mpz_class a, b; if (!parse_int(s.substr(0, sl), a) || !parse_int(s.substr(sl + 1), b) || b <= 0) return false;
		out = Q(a, b); out.canonicalize(); return true;
	}
	size_t dot = s.find('.');
	if (dot != std::string::npos) {
		std::string ip = s.substr(0, dot), fp = s.substr(dot + 1);
		bool neg = !ip.empty() && ip[0] == '-'; if (neg || (!ip.empty() && ip[0] == '+')) ip = ip.substr(1);
		if (ip.empty()) ip = "0";
		if (!all_digits(ip) || !all_digits(fp)) return false;
		mpz_class num(ip + fp, 10), den; mpz_ui_pow_ui(den.get_mpz_t(), 10, fp.size());
		out = Q(num, den); out.canonicalize(); if (neg) out = -out; return true;
	}
	mpz_class a; if (!parse_int(s, a)) return false; out = Q(a); return true;
}
bool parse_num(const std::string &s, Num &out) {
	if (s == "inf" || s == "+inf") { out = Num::pinf(); return true; }
	if (s == "-inf") { out = Num::ninf(); return true; }
	Q q; if (!parse_q(s, q)) return false; out = Num(q); return true;
}
int cmp(const Num &a, const Num &b) {
	if (a.inf != b.inf) return a.inf < b.inf ? -1 : 1;
	if (a.inf) return 0;
	return ::cmp(a.v, b.v);
}

// ------------------------------------------------------------------ LP
std::string LP::canon(bool with_range_of_nonR) const {
	std::string s = strf("sense %s\nncols %d nrows %d nz %d\n", objsense > 0 ? "min" : "max", (int)cols.size(), (int)rows.size(), nz());
	for (size_t j = 0; j < cols.size(); j++) {
		const MCol &c = cols[j];
		s += strf("col %d %s obj %s lo %s up %s int %d\n", (int)j, c.name.c_str(), qstr(c.obj).c_str(), numstr(c.lo).c_str(), numstr(c.up).c_str(), (int)c.isint);
	}
	for (size_t i = 0; i < rows.size(); i++) {
		const MRow &r = rows[i];
		s += strf("row %d %s %c rhs %s", (int)i, r.name.c_str(), r.sense, qstr(r.rhs).c_str());
		if (r.sense == 'R' || with_range_of_nonR) s += " range " + qstr(r.range);
		for (auto &kv : r.coef) if (kv.second != 0) s += strf(" %d:%s", kv.first, qstr(kv.second).c_str());
		s += "\n";
	}
	return s;
}
void LP::del_cols(const std::vector<int> &d) {
	if (d.empty()) return;
	std::vector<int> newidx(cols.size(), 0); std::set<int> ds(d.begin(), d.end());
	int k = 0; for (size_t j = 0; j < cols.size(); j++) newidx[j] = ds.count((int)j) ? -1 : k++;
	std::vector<MCol> nc; for (size_t j = 0; j < cols.size(); j++) if (newidx[j] >= 0) nc.push_back(cols[j]);
	cols.swap(nc);
	for (auto &r : rows) { std::map<int, Q> m; for (auto &kv : r.coef) if (newidx[kv.first] >= 0) m[newidx[kv.first]] = kv.second; r.coef.swap(m); }
}
void LP::del_rows(const std::vector<int> &d) {
	if (d.empty()) return;
	std::set<int> ds(d.begin(), d.end()); std::vector<MRow> nr;
	for (size_t i = 0; i < rows.size(); i++) if (!ds.count((int)i)) nr.push_back(rows[i]);
	rows.swap(nr);
}
bool LP::moderate(int bits) const {
	auto ok = [&](const Q &v) { return mpz_sizeinbase(v.get_num().get_mpz_t(), 2) <= (size_t)bits && mpz_sizeinbase(v.get_den().get_mpz_t(), 2) <= (size_t)bits; };
	for (auto &c : cols) { if (!ok(c.obj)) return false; if (c.lo.fin() && !ok(c.lo.v)) return false; if (c.up.fin() && !ok(c.up.v)) return false; }
	for (auto &r : rows) { if (!ok(r.rhs) || !ok(r.range)) return false; for (auto &kv : r.coef) if (!ok(kv.second)) return false; }
	return true;
}
bool LP::well_formed(std::string *why) const {
	for (auto &c : cols) if (cmp(c.lo, c.up) > 0) { if (why) *why = "lower>upper " + c.name; return false; }
	// a lower bound of +infinity or an upper bound of -infinity (a damaged bounds section can say so: "inf <= x <= inf") leaves no value for the column
	for (auto &c : cols) if ((!c.lo.fin() && c.lo.inf > 0) || (!c.up.fin() && c.up.inf < 0)) { if (why) *why = "infinite bound on the wrong side " + c.name; return false; }
	for (auto &r : rows) if (r.sense == 'R' && r.range < 0) { if (why) *why = "range<0 " + r.name; return false; }
	return true;
}

// ------------------------------------------------------------------ certificates
static Q row_act(const MRow &r, const std::vector<Q> &x) { Q a = 0; for (auto &kv : r.coef) a += kv.second * x[kv.first]; return a; }

Verdict check_feasible(const LP &lp, const std::vector<Q> &x) {
	if (x.size() != lp.cols.size()) return Verdict::bad("x size");
	for (size_t j = 0; j < lp.cols.size(); j++) {
		if (cmp(Num(x[j]), lp.cols[j].lo) < 0) return Verdict::bad(strf("x[%d]=%s below lower %s", (int)j, qstr(x[j]).c_str(), numstr(lp.cols[j].lo).c_str()));
		if (cmp(Num(x[j]), lp.cols[j].up) > 0) return Verdict::bad(strf("x[%d]=%s above upper %s", (int)j, qstr(x[j]).c_str(), numstr(lp.cols[j].up).c_str()));
	}
	for (size_t i = 0; i < lp.rows.size(); i++) {
		const MRow &r = lp.rows[i]; Q a = row_act(r, x);
		bool ok = true;
		switch (r.sense) {
		case 'L': ok = a <= r.rhs; break;
		case 'G': ok = a >= r.rhs; break;
		case 'E': ok = a == r.rhs; break;
		case 'R': ok = a >= r.rhs && a <= r.rhs + r.range; break;
		default: return Verdict::bad("bad sense in model");
		}
		if (!ok) return Verdict::bad(strf("row %d (%c) violated: activity %s rhs %s range %s", (int)i, r.sense, qstr(a).c_str(), qstr(r.rhs).c_str(), qstr(r.range).c_str()));
	}
	return Verdict();
}

Verdict check_optimal(const LP &lp, const std::vector<Q> &x, const std::vector<Q> &pi,
                      const std::vector<Q> *rc, const std::vector<Q> *slack, const Q *val) {
	size_t n = lp.cols.size(), m = lp.rows.size();
	if (x.size() != n) return Verdict::bad("x size");
	if (pi.size() != m) return Verdict::bad("pi size");
	Verdict f = check_feasible(lp, x); if (!f.ok) return Verdict::bad("primal: " + f.why);
	int s = lp.objsense;
	if (slack) {
		if (slack->size() != m) return Verdict::bad("slack size");
		for (size_t i = 0; i < m; i++) {
			const MRow &r = lp.rows[i]; Q a = row_act(r, x);
			Q want = (r.sense == 'L' || r.sense == 'E') ? Q(r.rhs - a) : Q(a - r.rhs);
			if ((*slack)[i] != want) return Verdict::bad(strf("slack[%d]=%s but row gives %s", (int)i, qstr((*slack)[i]).c_str(), qstr(want).c_str()));
		}
	}
	// reduced costs in the user's sign convention: rc = c - A^T pi
	std::vector<Q> rcu(n); for (size_t j = 0; j < n; j++) rcu[j] = lp.cols[j].obj;
	for (size_t i = 0; i < m; i++) for (auto &kv : lp.rows[i].coef) rcu[kv.first] -= kv.second * pi[i];
	if (rc) {
		if (rc->size() != n) return Verdict::bad("rc size");
		for (size_t j = 0; j < n; j++) if ((*rc)[j] != rcu[j]) return Verdict::bad(strf("rc[%d]=%s but c-A'pi=%s", (int)j, qstr((*rc)[j]).c_str(), qstr(rcu[j]).c_str()));
	}
	Q D = 0;   // dual objective in minimisation form
	for (size_t i = 0; i < m; i++) {
		const MRow &r = lp.rows[i]; Q p = s * pi[i];
		if (p > 0) {
			if (r.sense == 'L') return Verdict::bad(strf("dual sign: pi[%d]=%s on an L row", (int)i, qstr(pi[i]).c_str()));
			D += p * r.rhs;
		} else if (p < 0) {
			if (r.sense == 'G') return Verdict::bad(strf("dual sign: pi[%d]=%s on a G row", (int)i, qstr(pi[i]).c_str()));
			D += p * (r.sense == 'R' ? Q(r.rhs + r.range) : r.rhs);
		}
	}
	for (size_t j = 0; j < n; j++) {
		Q d = s * rcu[j];
		if (d > 0) { if (!lp.cols[j].lo.fin()) return Verdict::bad(strf("dual sign: rc[%d]>0 needs a finite lower bound", (int)j)); D += d * lp.cols[j].lo.v; }
		else if (d < 0) { if (!lp.cols[j].up.fin()) return Verdict::bad(strf("dual sign: rc[%d]<0 needs a finite upper bound", (int)j)); D += d * lp.cols[j].up.v; }
	}
	Q P = 0; for (size_t j = 0; j < n; j++) P += lp.cols[j].obj * x[j];
	if (Q(s * P) != D) return Verdict::bad("primal objective " + qstr(P) + " != dual objective " + qstr(Q(s * D)));
	if (val && *val != P) return Verdict::bad("reported value " + qstr(*val) + " != c.x " + qstr(P));
	return Verdict();
}

static Verdict farkas_oriented(const LP &lp, const std::vector<Q> &y) {
	size_t n = lp.cols.size(), m = lp.rows.size();
	Q beta = 0; bool any = false;
	std::vector<Q> d(n);
	for (size_t i = 0; i < m; i++) {
		const MRow &r = lp.rows[i];
		if (y[i] == 0) continue;
		any = true;
		if (y[i] > 0) { if (r.sense == 'L') return Verdict::bad(strf("multiplier %d positive on an L row", (int)i)); beta += y[i] * r.rhs; }
		else { if (r.sense == 'G') return Verdict::bad(strf("multiplier %d negative on a G row", (int)i)); beta += y[i] * (r.sense == 'R' ? Q(r.rhs + r.range) : r.rhs); }
		for (auto &kv : r.coef) d[kv.first] += kv.second * y[i];
	}
	// every feasible x satisfies d.x >= beta; infeasible if max over the box of d.x < beta
	Q mx = 0;
	for (size_t j = 0; j < n; j++) {
		if (d[j] > 0) { if (!lp.cols[j].up.fin()) return Verdict::bad(strf("leans on infinite upper bound of column %d", (int)j)); mx += d[j] * lp.cols[j].up.v; }
		else if (d[j] < 0) { if (!lp.cols[j].lo.fin()) return Verdict::bad(strf("leans on infinite lower bound of column %d", (int)j)); mx += d[j] * lp.cols[j].lo.v; }
	}
	(void)any;
	if (!(mx < beta)) return Verdict::bad("aggregated row is satisfiable: max lhs " + qstr(mx) + " >= " + qstr(beta));
	return Verdict();
}
Verdict check_farkas(const LP &lp, const std::vector<Q> &y, int *orientation_out) {
	if (y.size() != lp.rows.size()) return Verdict::bad("y size");
	// a column with lower > upper makes the box itself empty; y = 0 is then a proof only if we look at the box
	Verdict a = farkas_oriented(lp, y);
	if (a.ok) { if (orientation_out) *orientation_out = 1; return a; }
	std::vector<Q> ny(y.size()); for (size_t i = 0; i < y.size(); i++) ny[i] = -y[i];
	Verdict b = farkas_oriented(lp, ny);
	if (b.ok) { if (orientation_out) *orientation_out = -1; return b; }
	return Verdict::bad(a.why + " | negated: " + b.why);
}

Verdict check_ray(const LP &lp, const std::vector<Q> &x, const std::vector<Q> &d) {
	Verdict f = check_feasible(lp, x); if (!f.ok) return Verdict::bad("ray base point: " + f.why);
	size_t n = lp.cols.size();
	if (d.size() != n) return Verdict::bad("ray size");
	for (size_t j = 0; j < n; j++) {
		if (d[j] > 0 && lp.cols[j].up.fin()) return Verdict::bad("ray hits upper bound");
		if (d[j] < 0 && lp.cols[j].lo.fin()) return Verdict::bad("ray hits lower bound");
	}
	for (auto &r : lp.rows) {
		Q a = row_act(r, d);
		if ((r.sense == 'L' && a > 0) || (r.sense == 'G' && a < 0) || ((r.sense == 'E' || r.sense == 'R') && a != 0)) return Verdict::bad("ray leaves row " + r.name);
	}
	Q c = 0; for (size_t j = 0; j < n; j++) c += lp.cols[j].obj * d[j];
	if (!(Q(lp.objsense * c) < 0)) return Verdict::bad("ray does not improve objective");
	return Verdict();
}

// ------------------------------------------------------------------ dense algebra
bool solve_dense(Mat a, std::vector<Q> b, std::vector<Q> &x) {
	size_t n = a.size();
	for (size_t c = 0; c < n; c++) {
		size_t p = c; while (p < n && a[p][c] == 0) p++;
		if (p == n) return false;
		if (p != c) { std::swap(a[p], a[c]); std::swap(b[p], b[c]); }
		Q inv = 1 / a[c][c];
		for (size_t k = c; k < n; k++) a[c][k] *= inv;
		b[c] *= inv;
		for (size_t r = 0; r < n; r++) if (r != c && a[r][c] != 0) {
			Q f = a[r][c];
			for (size_t k = c; k < n; k++) if (a[c][k] != 0) a[r][k] -= f * a[c][k];
			b[r] -= f * b[c];
		}
	}
	x = b; return true;
}

// ------------------------------------------------------------------ basis algebra (4.4)
BasisEval eval_basis(const LP &lp, const std::string &cstat, const std::string &rstat) {
	BasisEval e; size_t n = lp.cols.size(), m = lp.rows.size();
	if (cstat.size() != n || rstat.size() != m) { e.note = "size"; return e; }
	std::vector<int> basic;
	for (size_t j = 0; j < n; j++) { char c = cstat[j]; if (c == '1') basic.push_back((int)j); else if (c != '0' && c != '2' && c != '3') { e.note = "bad cstat"; return e; } }
	for (size_t i = 0; i < m; i++) { char c = rstat[i]; if (c == '1') basic.push_back((int)(n + i)); else if (c != '0' && c != '2') { e.note = "bad rstat"; return e; } }
	if (basic.size() != m) { e.note = "count"; return e; }
	e.counts_ok = true;
	int s = lp.objsense;
	// full column data
	auto logical_sign = [&](size_t i) { char c = lp.rows[i].sense; return (c == 'L' || c == 'E') ? 1 : -1; };
	auto lo_of = [&](size_t k) -> Num { if (k < n) return lp.cols[k].lo; return Num(Q(0)); };
	auto up_of = [&](size_t k) -> Num { if (k < n) return lp.cols[k].up; char c = lp.rows[k - n].sense; if (c == 'E') return Num(Q(0)); if (c == 'R') return Num(lp.rows[k - n].range); return Num::pinf(); };
	std::vector<Q> val(n + m, Q(0)); std::vector<char> isb(n + m, 0);
	for (int k : basic) isb[k] = 1;
	for (size_t k = 0; k < n + m; k++) if (!isb[k]) {
		char st = k < n ? cstat[k] : rstat[k - n];
		if (st == '0') { Num l = lo_of(k); val[k] = l.fin() ? l.v : Q(0); }
		else if (st == '2') { Num u = up_of(k); val[k] = u.fin() ? u.v : Q(0); }
		else val[k] = 0;
	}
	// rhs - N x_N
	std::vector<Q> b(m);
	for (size_t i = 0; i < m; i++) {
		Q a = lp.rows[i].rhs;
		for (auto &kv : lp.rows[i].coef) if (!isb[kv.first]) a -= kv.second * val[kv.first];
		if (!isb[n + i]) a -= logical_sign(i) * val[n + i];
		b[i] = a;
	}
	// B = [A_TJ 0; A_SJ +-I] with S the rows whose logical is basic, T the others and J the basic structurals (|J| = |T|): only the
	// |T| x |T| block needs an elimination (problems with many rows and few columns have most logicals basic)
	std::vector<int> J, Trows, Srows;
	for (int k : basic) if ((size_t)k < n) J.push_back(k);
	for (size_t i = 0; i < m; i++) (isb[n + i] ? Srows : Trows).push_back((int)i);
	size_t t = Trows.size();
	Mat M(t, std::vector<Q>(t)); std::vector<Q> bT(t);
	for (size_t a = 0; a < t; a++) { const MRow &r = lp.rows[Trows[a]]; bT[a] = b[Trows[a]]; for (size_t c = 0; c < t; c++) { auto it = r.coef.find(J[c]); if (it != r.coef.end()) M[a][c] = it->second; } }
	std::vector<Q> xJ;
	if (t && !solve_dense(M, bT, xJ)) { e.singular = true; return e; }
	for (size_t c = 0; c < t; c++) val[J[c]] = xJ[c];
	for (int i : Srows) { Q a = b[i]; for (size_t c = 0; c < t; c++) { auto it = lp.rows[i].coef.find(J[c]); if (it != lp.rows[i].coef.end()) a -= it->second * xJ[c]; } val[n + i] = logical_sign(i) * a; }
	e.primal_feasible = true;
	for (size_t k = 0; k < n + m; k++) { if (cmp(Num(val[k]), lo_of(k)) < 0 || cmp(Num(val[k]), up_of(k)) > 0) e.primal_feasible = false; }
	// duals: B^T pi' = c'_B, i.e. pi'_S = 0 and A_TJ^T pi'_T = c'_J
	Mat MT(t, std::vector<Q>(t)); for (size_t a = 0; a < t; a++) for (size_t c = 0; c < t; c++) MT[c][a] = M[a][c];
	std::vector<Q> cJ(t); for (size_t c = 0; c < t; c++) cJ[c] = Q(s * lp.cols[J[c]].obj);
	std::vector<Q> piT; if (t) solve_dense(MT, cJ, piT);
	std::vector<Q> pim(m, Q(0)); for (size_t a = 0; a < t; a++) pim[Trows[a]] = piT[a];
	std::vector<Q> rcm(n + m);
	for (size_t j = 0; j < n; j++) rcm[j] = s * lp.cols[j].obj;
	for (size_t i = 0; i < m; i++) { for (auto &kv : lp.rows[i].coef) rcm[kv.first] -= kv.second * pim[i]; rcm[n + i] = -logical_sign(i) * pim[i]; }
	e.dual_feasible = true;
	for (size_t k = 0; k < n + m; k++) if (!isb[k]) {
		Num l = lo_of(k), u = up_of(k);
		if (l.fin() && u.fin() && l.v == u.v) continue;       // fixed: any sign
		char st = k < n ? cstat[k] : rstat[k - n];
		if (st == '0' && l.fin()) { if (rcm[k] < 0) e.dual_feasible = false; }
		else if (st == '2' && u.fin()) { if (rcm[k] > 0) e.dual_feasible = false; }
		else { if (rcm[k] != 0) e.dual_feasible = false; }
	}
	e.x.assign(val.begin(), val.begin() + n); e.slack.assign(val.begin() + n, val.end());
	e.pi.resize(m); for (size_t i = 0; i < m; i++) e.pi[i] = s * pim[i];
	e.rc.resize(n); for (size_t j = 0; j < n; j++) e.rc[j] = s * rcm[j];
	e.rc_logical.resize(m); for (size_t i = 0; i < m; i++) e.rc_logical[i] = s * rcm[n + i];
	Q P = 0; for (size_t j = 0; j < n; j++) P += lp.cols[j].obj * val[j];
	e.pobj = P; e.dobj = P;   // c.x == pi.rhs + sum_N rc_k x_k for any basic solution
	return e;
}

// ------------------------------------------------------------------ reference solver (4.3)
namespace {
struct Dict {   // CLRS slack form: x_B[i] = b[i] - sum_j A[i][j] x_N[j];  z = v + sum_j c[j] x_N[j]  (maximise)
	std::vector<int> N, B; Mat A; std::vector<Q> b, c; Q v; int pivots = 0;
	void pivot(int l, int e) {
		size_t n = N.size(), m = B.size(); pivots++;
		Q inv = 1 / A[l][e];
		b[l] *= inv;
		for (size_t j = 0; j < n; j++) if ((int)j != e) A[l][j] *= inv;
		A[l][e] = inv;
		for (size_t i = 0; i < m; i++) if ((int)i != l) {
			Q f = A[i][e]; if (f == 0) continue;
			b[i] -= f * b[l];
			for (size_t j = 0; j < n; j++) if ((int)j != e && A[l][j] != 0) A[i][j] -= f * A[l][j];
			A[i][e] = -f * A[l][e];
		}
		Q f = c[e];
		if (f != 0) { v += f * b[l]; for (size_t j = 0; j < n; j++) if ((int)j != e && A[l][j] != 0) c[j] -= f * A[l][j]; c[e] = -f * A[l][e]; }
		std::swap(N[e], B[l]);
	}
	// returns 1 optimal, 3 unbounded (ent = entering position), -1 pivot limit
	int run(int &ent, int limit) {
		for (;;) {
			int e = -1; for (size_t j = 0; j < N.size(); j++) if (c[j] > 0 && (e < 0 || N[j] < N[e])) e = (int)j;
			if (e < 0) return 1;
			int l = -1; Q best;
			for (size_t i = 0; i < B.size(); i++) if (A[i][e] > 0) {
				Q r = b[i] / A[i][e];
				if (l < 0 || r < best || (r == best && B[i] < B[l])) { l = (int)i; best = r; }
			}
			if (l < 0) { ent = e; return 3; }
			pivot(l, e);
			if (pivots > limit) return -1;
		}
	}
};
}

RefResult ref_solve(const LP &lp, int max_rows, int max_cols) {
	RefResult R; size_t n = lp.cols.size(), m = lp.rows.size();
	if ((int)n > max_cols || (int)m > max_rows) return R;
	std::string why; if (!lp.well_formed(&why)) { R.err = "not well formed: " + why; return R; }
	int s = lp.objsense;
	// x = x0 + T z
	struct ZV { int col; int sign; };
	std::vector<ZV> zv; std::vector<Q> x0(n);
	struct RowSrc { int urow; int sign; int bcol; };   // urow>=0: from user row (sign +1 L-type, -1 G-type); bcol>=0: bound row
	std::vector<std::vector<Q>> rows; std::vector<Q> rhs; std::vector<RowSrc> src;
	std::vector<std::vector<std::pair<int, int>>> zof(n);   // column -> (z index, sign)
	for (size_t j = 0; j < n; j++) {
		const MCol &c = lp.cols[j];
		if (c.lo.fin()) { x0[j] = c.lo.v; zof[j].push_back({(int)zv.size(), 1}); zv.push_back({(int)j, 1}); }
		else if (c.up.fin()) { x0[j] = c.up.v; zof[j].push_back({(int)zv.size(), -1}); zv.push_back({(int)j, -1}); }
		else { x0[j] = 0; zof[j].push_back({(int)zv.size(), 1}); zv.push_back({(int)j, 1}); zof[j].push_back({(int)zv.size(), -1}); zv.push_back({(int)j, -1}); }
	}
	size_t nzv = zv.size();
	for (size_t j = 0; j < n; j++) if (lp.cols[j].lo.fin() && lp.cols[j].up.fin()) {
		std::vector<Q> r(nzv); r[zof[j][0].first] = 1; rows.push_back(r); rhs.push_back(lp.cols[j].up.v - lp.cols[j].lo.v); src.push_back({-1, 0, (int)j});
	}
	for (size_t i = 0; i < m; i++) {
		const MRow &r = lp.rows[i];
		std::vector<Q> a(nzv); Q a0 = 0;
		for (auto &kv : r.coef) { a0 += kv.second * x0[kv.first]; for (auto &zs : zof[kv.first]) a[zs.first] += kv.second * zs.second; }
		auto addL = [&](const Q &side) { rows.push_back(a); rhs.push_back(side - a0); src.push_back({(int)i, 1, -1}); };
		auto addG = [&](const Q &side) { std::vector<Q> na(nzv); for (size_t k = 0; k < nzv; k++) na[k] = -a[k]; rows.push_back(na); rhs.push_back(-(side - a0)); src.push_back({(int)i, -1, -1}); };
		switch (r.sense) {
		case 'L': addL(r.rhs); break;
		case 'G': addG(r.rhs); break;
		case 'E': addL(r.rhs); addG(r.rhs); break;
		case 'R': addG(r.rhs); addL(r.rhs + r.range); break;
		default: R.err = "bad sense"; return R;
		}
	}
	size_t mr = rows.size();
	std::vector<Q> cz(nzv); Q cconst = 0;
	for (size_t j = 0; j < n; j++) { Q cj = -s * lp.cols[j].obj; cconst += cj * x0[j]; for (auto &zs : zof[j]) cz[zs.first] += cj * zs.second; }

	Dict D; D.N.resize(nzv); D.B.resize(mr); D.A = rows; D.b = rhs; D.c = cz; D.v = cconst;
	for (size_t j = 0; j < nzv; j++) D.N[j] = (int)j;
	for (size_t i = 0; i < mr; i++) D.B[i] = (int)(nzv + i);
	const int LIMIT = 20000; int ent = -1;
	auto user_point = [&](const Dict &d) { std::vector<Q> z(nzv + mr + 1); for (size_t i = 0; i < d.B.size(); i++) z[d.B[i]] = d.b[i];
		std::vector<Q> x = x0; for (size_t k = 0; k < nzv; k++) x[zv[k].col] += zv[k].sign * z[k]; return x; };
	// phase 1
	int lmin = -1; for (size_t i = 0; i < mr; i++) if (D.b[i] < 0 && (lmin < 0 || D.b[i] < D.b[lmin])) lmin = (int)i;
	if (lmin >= 0) {
		Dict X = D; int x0id = (int)(nzv + mr);
		X.N.push_back(x0id); for (size_t i = 0; i < mr; i++) X.A[i].push_back(Q(-1));
		X.c.assign(nzv + 1, Q(0)); X.c[nzv] = -1; X.v = 0;
		X.pivot(lmin, (int)nzv);
		int st = X.run(ent, LIMIT);
		if (st != 1) { R.err = "phase 1 did not reach optimality"; return R; }
		R.pivots += X.pivots;
		if (X.v != 0) {
			// infeasible: dual of the auxiliary problem
			std::vector<Q> yr(mr);
			for (size_t j = 0; j < X.N.size(); j++) { int id = X.N[j]; if (id >= (int)nzv && id < x0id) yr[id - nzv] = -X.c[j]; }
			R.y.assign(m, Q(0));
			for (size_t r = 0; r < mr; r++) if (src[r].urow >= 0) R.y[src[r].urow] += -src[r].sign * yr[r];
			R.status = 2;
			Verdict v = check_farkas(lp, R.y); if (!v.ok) R.err = "reference Farkas certificate invalid: " + v.why;
			return R;
		}
		// make x0 non-basic
		for (size_t i = 0; i < X.B.size(); i++) if (X.B[i] == x0id) {
			int e = -1; for (size_t j = 0; j < X.N.size(); j++) if (X.A[i][j] != 0) { e = (int)j; break; }
			if (e < 0) { R.err = "cannot drive artificial out"; return R; }
			X.pivot((int)i, e); break;
		}
		size_t pos = 0; for (; pos < X.N.size(); pos++) if (X.N[pos] == x0id) break;
		X.N.erase(X.N.begin() + pos); for (auto &row : X.A) row.erase(row.begin() + pos);
		// restore objective
		X.c.assign(X.N.size(), Q(0)); X.v = cconst;
		std::vector<Q> full(nzv + mr, Q(0)); for (size_t k = 0; k < nzv; k++) full[k] = cz[k];
		for (size_t j = 0; j < X.N.size(); j++) X.c[j] = full[X.N[j]];
		for (size_t i = 0; i < X.B.size(); i++) { Q f = full[X.B[i]]; if (f == 0) continue; X.v += f * X.b[i]; for (size_t j = 0; j < X.N.size(); j++) X.c[j] -= f * X.A[i][j]; }
		X.pivots = 0; D = X;
	}
	int st = D.run(ent, LIMIT); R.pivots += D.pivots;
	if (st < 0) { R.err = "pivot limit"; return R; }
	R.x = user_point(D);
	if (st == 3) {
		std::vector<Q> dz(nzv + mr, Q(0)); dz[D.N[ent]] = 1; for (size_t i = 0; i < D.B.size(); i++) dz[D.B[i]] = -D.A[i][ent];
		R.ray.assign(n, Q(0)); for (size_t k = 0; k < nzv; k++) R.ray[zv[k].col] += zv[k].sign * dz[k];
		R.status = 3;
		Verdict v = check_ray(lp, R.x, R.ray); if (!v.ok) R.err = "reference ray invalid: " + v.why;
		return R;
	}
	std::vector<Q> yr(mr);
	for (size_t j = 0; j < D.N.size(); j++) { int id = D.N[j]; if (id >= (int)nzv) yr[id - nzv] = -D.c[j]; }
	std::vector<Q> pim(m, Q(0));
	for (size_t r = 0; r < mr; r++) if (src[r].urow >= 0) pim[src[r].urow] += -src[r].sign * yr[r];
	R.pi.resize(m); for (size_t i = 0; i < m; i++) R.pi[i] = s * pim[i];
	R.value = 0; for (size_t j = 0; j < n; j++) R.value += lp.cols[j].obj * R.x[j];
	R.status = 1;
	Verdict v = check_optimal(lp, R.x, R.pi, 0, 0, &R.value); if (!v.ok) R.err = "reference optimality certificate invalid: " + v.why;
	return R;
}
