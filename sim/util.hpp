#pragma once
#include <cstdint>
#include <string>
#include <vector>
#include <map>
#include <sstream>
#include <cstdio>
#include <cstdarg>

// ---------------------------------------------------------------- PRNG (planner only)
struct Rng {
	uint64_t s;
	explicit Rng(uint64_t seed) : s(seed) {}
	static uint64_t mix(uint64_t z) {
		z += 0x9e3779b97f4a7c15ULL;
		z = (z ^ (z >> 30)) * 0xbf58476d1ce4e5b9ULL;
		z = (z ^ (z >> 27)) * 0x94d049bb133111ebULL;
		return z ^ (z >> 31);
	}
	uint64_t next() { s += 0x9e3779b97f4a7c15ULL; uint64_t z = s;
		z = (z ^ (z >> 30)) * 0xbf58476d1ce4e5b9ULL;
		z = (z ^ (z >> 27)) * 0x94d049bb133111ebULL;
		return z ^ (z >> 31); }
	// uniform in [0,n)
	uint64_t below(uint64_t n) { return n ? next() % n : 0; }
	int range(int lo, int hi) { return lo + (int)below((uint64_t)(hi - lo + 1)); }
	bool chance(int num, int den) { return (int)below(den) < num; }
	template <class T> const T &pick(const std::vector<T> &v) { return v[below(v.size())]; }
};

// ---------------------------------------------------------------- hashing
struct Fnv {
	uint64_t h = 1469598103934665603ULL;
	void add(const void *p, size_t n) { const unsigned char *c = (const unsigned char *)p;
		for (size_t i = 0; i < n; i++) { h ^= c[i]; h *= 1099511628211ULL; } }
	void add(const std::string &s) { add(s.data(), s.size()); add("\x1f", 1); }
	void add(uint64_t v) { add(&v, sizeof v); }
};
inline uint64_t hashstr(const std::string &s) { Fnv f; f.add(s); return f.h; }

inline std::string strf(const char *fmt, ...) {
	char buf[4096]; va_list ap; va_start(ap, fmt); int n = vsnprintf(buf, sizeof buf, fmt, ap); va_end(ap);
	if (n < 0) return std::string();
	if ((size_t)n < sizeof buf) return std::string(buf, n);
	std::string s(n + 1, 0); va_start(ap, fmt); vsnprintf(&s[0], n + 1, fmt, ap); va_end(ap); s.resize(n); return s;
}
inline std::string hex64(uint64_t v) { return strf("%016llx", (unsigned long long)v); }

inline std::vector<std::string> split(const std::string &s, char sep = ' ') {
	std::vector<std::string> out; std::string cur;
	for (char c : s) { if (c == sep) { if (!cur.empty() || sep != ' ') out.push_back(cur); cur.clear(); } else cur.push_back(c); }
	if (!cur.empty() || (sep != ' ' && !s.empty())) out.push_back(cur);
	return out;
}
inline bool starts_with(const std::string &s, const char *p) { return s.rfind(p, 0) == 0; }
inline bool contains(const std::string &s, const char *p) { return s.find(p) != std::string::npos; }
