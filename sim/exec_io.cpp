// File operations over the simulated disk (S5): write / read problems and bases, damage, foreign producers.
#include "exec.hpp"
#include "shim.h"
#include <algorithm>

static const char *COMP_EXT[] = {"", ".gz", ".bz2"};

std::string Exec::io_path(const Op *o, const char *fmt_ext) {
	std::string base = o->s("path", "f0"); std::string clean; for (char ch : base) if (isalnum((unsigned char)ch) || ch == '_') clean += ch; if (clean.empty()) clean = "f";
	return "/sim/" + clean + fmt_ext + COMP_EXT[modn(o->i("comp", 0), 3)];
}
static std::string raw_bytes(const std::string &path, const std::string &stored, bool *ok) {
	*ok = true; size_t n = path.size();
	if (n > 3 && path.compare(n - 3, 3, ".gz") == 0) { std::string r; *ok = gz_decompress(stored, r); return r; }
	if (n > 4 && path.compare(n - 4, 4, ".bz2") == 0) { std::string r; *ok = bz_decompress(stored, r); return r; }
	return stored;
}
static std::string store_bytes(const std::string &path, const std::string &raw) {
	size_t n = path.size();
	if (n > 3 && path.compare(n - 3, 3, ".gz") == 0) return gz_compress(raw);
	if (n > 4 && path.compare(n - 4, 4, ".bz2") == 0) return bz_compress(raw);
	return raw;
}

void Exec::arm_file_faults(const std::string &path) {
	FileFaults ff; bool any = false;
	if (const Fault *f = op->fault("io.open_fail")) { static const int e[] = {ENOENT, EACCES, EMFILE, ENOSPC, EISDIR}; ff.open_errno = e[modn(fi(*f, "e"), 5)]; any = true; }
	if (const Fault *f = op->fault("io.read_eio")) { ff.read_eio_at = std::max(0L, fi(*f, "at")); any = true; }
	if (const Fault *f = op->fault("io.write_err")) { ff.write_err_at = std::max(0L, fi(*f, "at")); any = true; }
	if (const Fault *f = op->fault("io.short_write")) { ff.short_write_at = std::max(0L, fi(*f, "at")); any = true; }
	if (op->fault("io.close_err")) { ff.close_err = 1; any = true; }
	if (const Fault *f = op->fault("io.chunk")) { ff.chunk = (int)std::max(1L, fi(*f, "n", 7)); any = true; }
	if (any) world.ffaults[path] = ff;
	world.expected_paths.insert(path);
}

// ------------------------------------------------------------------ comparison of a re-read problem with the model it was written from
namespace {
struct Half { char sense; Q rhs; std::map<std::string, Q> coef; bool operator<(const Half &o) const { if (sense != o.sense) return sense < o.sense; if (rhs != o.rhs) return rhs < o.rhs; return coef < o.coef; } bool operator==(const Half &o) const { return sense == o.sense && rhs == o.rhs && coef == o.coef; } };
std::vector<Half> halves(const LP &m, std::map<std::string, Half> *named) {
	std::vector<Half> out;
	for (auto &r : m.rows) {
		Half h; for (auto &kv : r.coef) if (kv.second != 0) h.coef[m.cols[kv.first].name] = kv.second;
		if (h.coef.empty()) continue;   // empty rows are dropped by the writers
		if (r.sense == 'R') { Half g = h; g.sense = 'G'; g.rhs = r.rhs; Half l = h; l.sense = 'L'; l.rhs = r.rhs + r.range; out.push_back(g); out.push_back(l); if (named) (*named)[r.name] = g; }
		else { h.sense = r.sense; h.rhs = r.rhs; out.push_back(h); if (named) (*named)[r.name] = h; }
	}
	std::sort(out.begin(), out.end()); return out;
}
}

// a name both formats can carry without repair: LP-format name characters only (the LP writer renames anything else), no
// leading digit or '.', and not one of the words the LP grammar reserves
static bool plain_name(const std::string &n) {
	if (n.empty() || n.size() > 200) return false;
	for (size_t k = 0; k < n.size(); k++) { unsigned char c = (unsigned char)n[k]; bool ok = (c >= 'a' && c <= 'z') || (c >= 'A' && c <= 'Z') || (k > 0 && ((c >= '0' && c <= '9') || c == '.')) || (c != 0 && strchr("!\"#$%&()/,;?@_`'{}|~", c) != 0); if (!ok) return false; }
	std::string l; for (char c : n) l.push_back((char)tolower((unsigned char)c));
	// the LP format's keywords only count at the beginning of a line, so most of them are ordinary names anywhere else; the ones left here
	// are words of the bounds section, which takes them wherever they stand
	static const char *kw[] = {"free", "inf", "infinity", 0};
	for (int k = 0; kw[k]; k++) if (l == kw[k]) return false;
	return true;
}
bool Exec::roundtrip_precondition(const LP &m, bool names_too) {
	if (names_too) { for (auto &c : m.cols) if (!plain_name(c.name)) return false;
		for (auto &r : m.rows) if (!plain_name(r.name)) return false; }
	bool anyrow = false; std::vector<char> used(m.cols.size(), 0);
	for (size_t j = 0; j < m.cols.size(); j++) if (m.cols[j].obj != 0) used[j] = 1;
	for (auto &r : m.rows) { bool ne = false; for (auto &kv : r.coef) if (kv.second != 0) { used[kv.first] = 1; ne = true; } if (ne) anyrow = true; }
	if (!anyrow) return false;
	for (char u : used) if (!u) return false;
	return true;
}

// returns "" if `got` is the same problem as `want` up to the documented representation changes
std::string Exec::roundtrip_diff(const LP &want, const LP &got, bool native_ranges) {
	if (want.objsense != got.objsense) return "objective sense differs";
	if (want.cols.size() != got.cols.size()) return strf("column count %d vs %d", (int)got.cols.size(), (int)want.cols.size());
	for (auto &c : want.cols) { int j = got.col_index(c.name); if (j < 0) return "column " + c.name + " missing";
		const MCol &g = got.cols[j];
		if (g.obj != c.obj) return "objective coefficient of " + c.name + ": " + qstr(g.obj) + " vs " + qstr(c.obj);
		if (g.lo != c.lo) return "lower bound of " + c.name + ": " + numstr(g.lo) + " vs " + numstr(c.lo);
		if (g.up != c.up) return "upper bound of " + c.name + ": " + numstr(g.up) + " vs " + numstr(c.up);
		if (g.isint != c.isint) return "integrality of " + c.name + " differs"; }
	std::map<std::string, Half> nw, ng; std::vector<Half> hw = halves(want, &nw), hg = halves(got, &ng);
	if (hw != hg) { for (size_t k = 0; k < std::max(hw.size(), hg.size()); k++) if (k >= hw.size() || k >= hg.size() || !(hw[k] == hg[k])) return strf("row constraints differ (%d vs %d one-sided rows), first difference at sorted position %d", (int)hg.size(), (int)hw.size(), (int)k); }
	for (auto &kv : nw) { auto it = ng.find(kv.first); if (it == ng.end()) return "row " + kv.first + " missing by name"; if (!(it->second == kv.second)) return "row " + kv.first + " differs by name"; }
	if (native_ranges) for (auto &r : want.rows) if (r.sense == 'R' && !r.coef.empty()) { int i = got.row_index(r.name); if (i < 0) return "ranged row " + r.name + " missing";
		const MRow &g = got.rows[i]; if (g.sense != 'R' || g.rhs != r.rhs || g.range != r.range) { if (!(r.range == 0 && g.sense == 'E' && g.rhs == r.rhs)) return "ranged row " + r.name + " not read back as the same range"; } }
	return "";
}

// ------------------------------------------------------------------ write
void Exec::op_write(Client &c) {
	Obj *o = pick_obj(c, op->i("o")); if (!o || o->broken) { T("  skip"); return; }
	std::string fmt = op->s("fmt", "LP") == "MPS" ? "MPS" : "LP"; std::string via = op->s("via", "path");
	std::string path = io_path(op, fmt == "LP" ? ".lp" : ".mps");
	if (via != "path") { size_t n = path.size(); if (n > 3 && path.compare(n - 3, 3, ".gz") == 0) path.resize(n - 3); else if (n > 4 && path.compare(n - 4, 4, ".bz2") == 0) path.resize(n - 4); }
	arm_file_faults(path);
	snapshot_others(o);
	std::string before = plan.knobi("writecheck", 1) ? snapshot(*o) : std::string();
	int rv = 0; bool destructive = op->fault("io.write_err") || op->fault("io.short_write") || op->fault("io.close_err") || op->fault("io.open_fail");
	if (via == "file") {
		FILE *f = sim_open_cookie(path, "w");
		if (!f) { T("  open failed (fault)"); compare_others("write"); return; }
		rv = mpq_QSwrite_prob_file(o->p, f, fmt.c_str());
		int cr = fclose(f); if (cr) destructive = true;
	} else if (via == "reporter") {
		world.reporter_sink.clear(); world.reporter_is_sink = true;
		mpq_QSset_reporter(o->p, 100, (void *)sim_reporter, 0); o->reporter_installed = true;
		rv = mpq_QSreport_prob(o->p, fmt.c_str(), 0);
		world.reporter_is_sink = false;
		world.files[path] = world.reporter_sink; world.reporter_sink.clear();
	} else rv = mpq_QSwrite_prob(o->p, path.c_str(), fmt.c_str());
	after_lib_call("write:" + fmt);
	bool stored = world.files.count(path) != 0;
	T(strf("  write %s via=%s path=%s rv=%d bytes=%d hash=%s", fmt.c_str(), via.c_str(), path.c_str(), rv, stored ? (int)world.files[path].size() : -1, stored ? hex64(hashstr(world.files[path])).c_str() : "-"));
	signature("write:" + fmt + ":" + via + ":" + o->life + strf(":%d", rv != 0));
	if (trace && stored) { bool okz; std::string raw = raw_bytes(path, world.files[path], &okz); size_t pos = 0; int ln = 0; while (pos < raw.size() && ln < 60) { size_t e = raw.find('\n', pos); if (e == std::string::npos) e = raw.size(); out_line("F   " + raw.substr(pos, std::min<size_t>(e - pos, 300))); pos = e + 1; ln++; } }
	FileInfo fi2; fi2.fmt = fmt; fi2.model = o->m; fi2.damaged = destructive || world.damaged_paths.count(path) != 0 || rv != 0 || !stored; fi2.kind = "prob"; fi2.precond = roundtrip_precondition(o->m) && !o->has_sos; fi2.sos = o->has_sos; fi2.structural = roundtrip_precondition(o->m, false) && !o->has_sos && o->repairable_names;
	{ char *pn = mpq_QSget_probname(o->p), *on = mpq_QSget_objname(o->p);   // problem and objective names are written verbatim too (a name read from a damaged file may not be a token)
		if ((pn && !plain_name(pn)) || (on && !plain_name(on))) fi2.precond = fi2.structural = false; mpq_QSfree(pn); mpq_QSfree(on); } fi2.chain = o->from_file_chain;
	files[path] = fi2; prob_paths.erase(std::remove(prob_paths.begin(), prob_paths.end(), path), prob_paths.end()); prob_paths.push_back(path);
	if (destructive && rv == 0) probe("io.write_error_swallowed");
	if (!before.empty() && snapshot(*o) != before) violate("C16", "write-changed-object:" + fmt, "writing a problem changed what is observed of it");
	compare_others("write");
}

// ------------------------------------------------------------------ read
struct LineSrc { std::string data; size_t pos = 0; int chunk = 0; long polls = 0, maxpolls = 0; };
extern "C" char *sim_line_reader(char *s, int size, void *src) {
	LineSrc *l = (LineSrc *)src;
	if (size <= 1) return 0;
	if (l->pos >= l->data.size()) { l->polls++; if (l->polls > l->maxpolls) l->maxpolls = l->polls; return 0; }
	l->polls = 0;
	int lim = size - 1;   // fgets semantics: a whole line, or size-1 characters of it
	int k = 0; while (k < lim && l->pos < l->data.size()) { char ch = l->data[l->pos++]; s[k++] = ch; if (ch == '\n') break; }
	s[k] = 0; return s;
}

void Exec::op_read(Client &c) {
	std::string fmt = op->s("fmt", "LP") == "MPS" ? "MPS" : "LP"; std::string via = op->s("via", "path");
	std::string path = io_path(op, fmt == "LP" ? ".lp" : ".mps");
	if (op->has("pick") && !prob_paths.empty()) { path = prob_paths[modn(op->i("pick"), (long)prob_paths.size())]; fmt = files[path].fmt; }   // write order; -1 = most recent
	if (op->i("missing", 0)) { path = "/sim/no_such_dir/"; long len = op->i("missing"); for (long k = 0; k < len; k++) path.push_back("subdir_"[k % 7]); path += fmt == "LP" ? ".lp" : ".mps"; }   // a file that is not there, with a short or a very long name
	bool exists = world.files.count(path) != 0;
	if (op->i("missing", 0) && op->i("sweep", 0) && world.handler_installed) {
		// "delivered as a complete message": the diagnostic for a file that is not there quotes its path; every length around the sizes a
		// formatting buffer might have (256, 512, 1024, ... minus what the message puts in front) has to arrive whole
		static const int bases[] = {256, 512, 1024, 2048, 4096, 8192}; int base = 0; int bad = 0, quoted = 0; std::string firstbad; bool tail_known = false; std::string tail0;
		for (int bi = 0; bi < 6; bi++) for (int len = bases[bi] - 90; len <= bases[bi] + 2; len++) { base = bases[bi]; std::string pth = "/sim/no_such_dir/"; while ((int)pth.size() < len - 4) pth.push_back("subdir_"[pth.size() % 7]); pth += fmt == "LP" ? ".lp" : ".mps";
			world.expected_paths.insert(pth); world.log_expect = pth; world.log_expect_full = world.log_expect_prefix = 0; world.log_expect_tail_set = false; world.log_expect_tail.clear();
			mpq_QSprob qq = mpq_QSread_prob(pth.c_str(), fmt.c_str()); if (qq) mpq_QSfree_prob(qq); after_lib_call("read:" + fmt);
			if (world.log_expect_prefix > 0) { quoted++; if (world.log_expect_full == 0) { bad++; if (firstbad.empty()) firstbad = strf("path of %d characters", (int)pth.size()); }
				// ... and what the message says behind the path is the same for every length: a message that lost its last characters differs
				else if (world.log_expect_tail_set) { if (!tail_known) { tail_known = true; tail0 = world.log_expect_tail; } else if (world.log_expect_tail != tail0) { bad++; if (firstbad.empty()) firstbad = strf("path of %d characters: the message ends \"%s\", the others end \"%s\"", (int)pth.size(), world.log_expect_tail.substr(0, 60).c_str(), tail0.substr(0, 60).c_str()); } } } }
		world.log_expect.clear();
		T(strf("  missing-path sweep around 256..8192: %d diagnostics quote the path, %d cut", quoted, bad)); probe("c20.path_sweep_quoted", quoted);
		if (bad) violate("C20", "truncated-message:read-missing", strf("the diagnostic for a missing file quotes its path, but not all of it (%s; %d of %d lengths around the powers of two from 256 to 8192)", firstbad.c_str(), bad, quoted));
		return; }
	arm_file_faults(path);
	bool destructive_now = op->fault("io.read_eio") || op->fault("io.open_fail");
	mpq_QSprob q = 0; long maxpolls = 0; int nerr = -1;
	if (via == "reader" && exists) {
		bool ok; LineSrc src; src.data = raw_bytes(path, world.files[path], &ok); if (const Fault *f = op->fault("io.chunk")) src.chunk = (int)std::max(1L, fi(*f, "n", 7));
		if (const Fault *f = op->fault("io.read_eio")) { size_t at = (size_t)std::max(0L, fi(*f, "at")); if (at < src.data.size()) { src.data.resize(at); world.io_fired["io.read_eio"]++; } }
		mpq_QSline_reader rd = mpq_QSline_reader_new((void *)sim_line_reader, &src);
		mpq_QSerror_memory mem = mpq_QSerror_memory_create(1); mpq_QSerror_collector col = mpq_QSerror_memory_collector_new(mem);
		mpq_QSline_reader_set_error_collector(rd, col);
		q = mpq_QSget_prob(rd, "fromreader", fmt.c_str());
		nerr = mpq_QSerror_memory_get_nerrors(mem);
		// what the collector kept is walked and printed to a stream of the caller's, which the caller then closes itself
		{ world.expected_paths.insert("/sim/errors.txt"); FILE *ef = sim_open_cookie("/sim/errors.txt", "w"); int shown = 0;
			if (ef) { for (mpq_QSformat_error e = mpq_QSerror_memory_get_last_error(mem); e && shown < 40; e = mpq_QSerror_memory_get_prev_error(e)) { mpq_QSerror_print(ef, e); (void)mpq_QSerror_get_type(e); (void)mpq_QSerror_get_desc(e); (void)mpq_QSerror_get_line_number(e); (void)mpq_QSerror_get_pos(e); (void)mpq_QSerror_get_line(e); shown++; }
				fclose(ef); probe("reader.collected_errors_printed", shown); } }
		mpq_QSline_reader_free(rd); mpq_QSerror_collector_free(col); mpq_QSerror_memory_free(mem);
		maxpolls = src.maxpolls;
	} else { q = mpq_QSread_prob(path.c_str(), fmt.c_str()); maxpolls = world.max_eof_polls; }
	after_lib_call("read:" + fmt);
	auto fit = files.find(path); bool known = fit != files.end() && fit->second.kind == "prob";
	bool damaged = !known || fit->second.damaged || destructive_now || !exists;
	T(strf("  read %s via=%s path=%s exists=%d damaged=%d -> %s errors=%d", fmt.c_str(), via.c_str(), path.c_str(), exists, damaged, q ? "object" : "NULL", nerr));
	signature("read:" + fmt + ":" + via + strf(":%d%d%d", exists, damaged, q != 0));
	if (maxpolls > 64) violate("C11", "eof-spin:" + fmt, strf("the reader polled its source %ld times in a row at end of input", maxpolls));
	if (exists && damaged) { nontrivial("C11"); probe(q ? "c11.damaged_accepted" : "c11.damaged_rejected"); }
	if (!q) {
		// names that are not LP tokens are repaired by the LP writer (C08 counts them in): its output has to be readable all the same
		if (known && !damaged && (fit->second.precond || (fmt == "LP" && fit->second.structural))) violate(fmt == "LP" ? "C08" : "C09", std::string("reader-rejects-writer-output:") + fmt + (fit->second.precond ? "" : ":repaired-names"), "the reader returned NULL for an undamaged file the library wrote itself");
		return;
	}
	// a returned problem must be internally consistent, writable, solvable and freeable (C11), whatever the bytes were
	auto o = std::make_shared<Obj>(); o->p = q; o->uid = next_uid++; o->family = o->uid; o->life = "loaded";
	LP got; std::string err;
	for (int v = 0; v < 3; v++) { LP g2; if (!lib_dump(q, v, g2, err)) { violate("C11", "inconsistent-problem:" + fmt, "a problem returned by the reader fails the query API: " + err); mpq_QSfree_prob(q); return; } if (v == 0) got = g2; else if (g2.canon() != got.canon()) { violate("C11", "inconsistent-problem:" + fmt, "row-wise, column-wise and element-wise views of the read problem differ"); mpq_QSfree_prob(q); return; } }
	after_lib_call("read:" + fmt);
	o->m = got;
	if (known && !damaged) {
		const char *prop = fmt == "LP" ? "C08" : "C09";
		if (fit->second.precond) {
			std::string d = roundtrip_diff(fit->second.model, got, fmt == "MPS");
			nontrivial(prop);
			if (!d.empty()) violate(prop, "roundtrip:" + fmt + ":" + d.substr(0, d.find(' ')), d + " (file " + path + ")");
			else { probe("roundtrip.equal." + fmt); if (fit->second.chain > 0) probe("roundtrip.chain");
				// same status and value (both exact solves, fault free)
				if (plan.knobi("io.solve", 1) && got.cols.size() <= 12 && got.rows.size() <= 14) {
					const Op *saved = world.cur_op; world.cur_op = 0; QSexact_set_precision(128);
					SolveOut a = raw_solve(q, "exact", DUAL_SIMPLEX, false, false, 0, false);
					Q va; bool ha = false; if (a.rv == 0 && a.status == QS_LP_OPTIMAL) { QArr v(1); if (!mpq_QSget_objval(q, v.p())) { va = lib_to_q(v.at(0)); ha = true; } }
					world.cur_op = saved; after_lib_call("read-solve");
					LP denoted = fit->second.model;   // the writers drop empty rows (documented), so the file denotes the problem without them
					{ std::vector<int> er; for (size_t i = 0; i < denoted.rows.size(); i++) { bool ne = false; for (auto &kv : denoted.rows[i].coef) if (kv.second != 0) ne = true; if (!ne) er.push_back((int)i); } denoted.del_rows(er); }
					const RefResult &tfull = truth(fit->second.model);   // ... unless an "empty" row only holds explicit zeros, which the writers keep; either reading is accepted
					bool full_ok = tfull.status && tfull.err.empty() && a.rv == 0 && a.status == tfull.status && (!ha || va == tfull.value);
					const RefResult &t = full_ok ? tfull : truth(denoted);
					if (a.rv == 0 && definitive(a.status) && t.status && t.err.empty()) { if (a.status != t.status || (ha && va != t.value)) { if (!(t.status == QS_LP_UNBOUNDED || a.status == QS_LP_UNBOUNDED)) violate(prop, "roundtrip-solution:" + fmt, "the re-read problem solves to " + status_name(a.status) + " " + qstr(va) + ", the written one to " + status_name(t.status) + " " + qstr(t.value)); } else probe("roundtrip.same_solution"); }
					o->life = "other"; o->ever_solved = true; o->edited_since_solve = false;
				}
			}
		} else probe("roundtrip.precondition_not_met");
	}
	c.objs.push_back(o);
	if (c.objs.size() > 6) { mpq_QSfree_prob(c.objs[0]->p); c.objs.erase(c.objs.begin()); }
	FileInfo src; if (known) src = fit->second;
	o->from_file_chain = known ? src.chain + 1 : 0; o->has_sos = known && src.sos; o->repairable_names = known && !damaged;
}

// ------------------------------------------------------------------ damage (faults on stored bytes between write and read)
void Exec::op_damage(Client &) {
	std::vector<std::string> ps; for (auto &kv : world.files) ps.push_back(kv.first);
	if (ps.empty()) { T("  skip"); return; }
	std::string path = ps[modn(op->i("pick"), (long)ps.size())]; std::string &d = world.files[path];
	std::string kind = op->s("kind", "torn"); long at = op->i("at", 0), len = op->i("len", 1);
	std::string before = d; size_t n = d.size();
	const size_t BLK = 512;
	if (n == 0) { T("  skip (empty file)"); return; }
	if (kind == "torn") d.resize((size_t)modn(at, (long)n));
	else if (kind == "flip") { size_t k = (size_t)modn(at, (long)n); d[k] = (char)(d[k] ^ (1 << modn(op->i("bit", 0), 8))); }
	else if (kind == "zero_tail") { size_t k = (size_t)modn(at, (long)n); for (size_t t = k; t < n; t++) d[t] = 0; }
	else if (kind == "block_drop") { size_t nb = (n + BLK - 1) / BLK; size_t b = (size_t)modn(at, (long)nb); d.erase(b * BLK, BLK); }
	else if (kind == "block_dup") { size_t nb = (n + BLK - 1) / BLK; size_t b = (size_t)modn(at, (long)nb); d.insert(b * BLK, before.substr(b * BLK, BLK)); }
	else if (kind == "token") {   // damage inside the (possibly compressed) text: a producer that died mid token
		bool ok; std::string raw = raw_bytes(path, d, &ok); if (!ok || raw.empty()) { T("  skip (not decodable)"); return; }
		size_t k = (size_t)modn(at, (long)raw.size()); static const char *junk[] = {"1/0", "99999999999999999999999999999999999999e9999", "-", "<=", ":", "\x01\x02", "ENDATA\n", "/", "e+", "+-+", "\\", "free", "inf", "1e-9999"};
		std::string j = junk[modn(len, 14)];
		if (modn(len / 14, 4) == 0) j = std::string((size_t)(1000 + modn(op->i("bit", 0), 8) * 20000), modn(len, 2) ? 'x' : '7');
		raw.insert(k, j); d = store_bytes(path, raw);
	} else { T("  unknown damage kind"); return; }
	bool changed = d != before;
	T(strf("  damage %s %s at=%ld -> %d bytes changed=%d", kind.c_str(), path.c_str(), at, (int)d.size(), changed));
	if (changed) { res.faults_fired["io." + kind]++; auto it = files.find(path); if (it != files.end()) { it->second.damaged = true; it->second.hit = true; } else { FileInfo f; f.damaged = true; f.kind = "unknown"; files[path] = f; } }
}

// ------------------------------------------------------------------ foreign producer: the harness's own LP / MPS renderer
static std::string lit(const Q &v, long style) {
	// decimal when exact and style asks for it, exponent form sometimes, fraction otherwise
	mpz_class den = v.get_den(); mpz_class t = den; while (t % 2 == 0) t /= 2; while (t % 5 == 0) t /= 5;
	if (t == 1 && style % 3 != 0) { int digits = 0; mpz_class p10 = 1; while (p10 % den != 0 && digits < 60) { p10 *= 10; digits++; }
		if (digits <= 40) { mpz_class num = v.get_num() * (p10 / den); bool neg = num < 0; if (neg) num = -num; std::string s = num.get_str(); if (digits) { while ((int)s.size() <= digits) s = "0" + s; s.insert(s.size() - digits, "."); }
			if (style % 3 == 2 && digits == 0 && s.size() > 3) { s = s.substr(0, 1) + "." + s.substr(1) + "e" + std::to_string(s.size() - 1); }
			return (neg ? "-" : "") + s; } }
	return v.get_str();
}
static std::string render_lp(const LP &m, long style) {
	std::string s; bool up = style % 2 == 1;
	s += "\\ written by a foreign producer\n"; s += m.objsense > 0 ? (up ? "MINIMIZE\n" : "Minimize\n") : (up ? "MAXIMIZE\n" : "Maximize\n"); s += " obj:";
	bool any = false; for (auto &c : m.cols) if (c.obj != 0) { Q a = abs(c.obj); s += (c.obj < 0 ? " - " : (any ? " + " : " ")); if (a != 1 || style % 5 == 0) s += lit(a, style) + " "; s += c.name; any = true; if (style % 7 == 3) s += "\n   "; }
	if (!any && !m.cols.empty()) s += " 0 " + m.cols[0].name;
	s += up ? "\nSUBJECT TO\n" : "\nSubject To\n";
	for (auto &r : m.rows) { bool ne = false; for (auto &kv : r.coef) if (kv.second != 0) ne = true; if (!ne) continue;
		auto expr = [&]() { std::string e; bool first = true; for (auto &kv : r.coef) { if (kv.second == 0) continue; Q a = abs(kv.second); e += (kv.second < 0 ? " - " : (first ? " " : " + ")); if (a != 1) e += lit(a, style + kv.first) + " "; e += m.cols[kv.first].name; first = false; } return e; };
		if (r.sense == 'R') { s += " " + r.name + ":" + expr() + " >= " + lit(r.rhs, style) + "\n"; s += " " + r.name + "_u:" + expr() + " <= " + lit(Q(r.rhs + r.range), style) + "\n"; }
		else s += " " + r.name + ":" + expr() + (r.sense == 'L' ? " <= " : r.sense == 'G' ? " >= " : " = ") + lit(r.rhs, style) + "\n"; }
	s += up ? "BOUNDS\n" : "Bounds\n";
	for (size_t jj = 0; jj < m.cols.size(); jj++) { const MCol &c = m.cols[jj]; bool marked_int = style % 4 == 1 && (jj + (size_t)(style / 4)) % 3 == 0;
		if (!c.lo.fin() && !c.up.fin()) s += " " + c.name + " free\n"; else if (c.lo.fin() && c.up.fin() && c.lo.v == c.up.v) s += " " + c.name + " = " + lit(c.lo.v, style) + "\n";
		else { bool deflo = c.lo.fin() && c.lo.v == 0, defup = !c.up.fin() && c.up.inf > 0; if (deflo && defup && !marked_int) continue;   /* an integer column without bounds would be read as binary: say [0,+inf) explicitly */ s += " " + (c.lo.fin() ? lit(c.lo.v, style) : std::string("-inf")) + " <= " + c.name + " <= " + (c.up.fin() ? lit(c.up.v, style) : std::string("+inf")) + "\n"; } }
	if (style % 4 == 1 && !m.cols.empty()) {   // an integer section: only files can mark columns integer
		std::string sec; for (size_t j = 0; j < m.cols.size(); j++) if ((j + (size_t)(style / 4)) % 3 == 0) sec += " " + m.cols[j].name;
		if (!sec.empty()) s += std::string(style % 8 == 1 ? "Integer\n" : "General\n") + sec + "\n"; }
	s += up ? "END\n" : "End\n"; return s;
}
static std::string render_mps(const LP &m, long style) {
	std::string s = "NAME foreign\n";
	if (m.objsense < 0) s += style % 2 ? "OBJSENSE\n    MAX\n" : "OBJSENSE\n MAXIMIZE\n"; else if (style % 3 == 1) s += "OBJSENSE\n    MIN\n";   // without the section an MPS file denotes a minimisation
	s += "ROWS\n N obj\n";
	bool ints = style % 4 == 1; bool in_int = false; bool extra_free = style % 11 == 5 || (!ints && style % 13 == 7 && m.cols.size() >= 2 && (style / 13) % 2 == 0);
	if (extra_free) s += " N zfree\n";   // a second free row: columns that only appear there are dropped by the reader
	// a ranged row lo <= a.x <= hi has five spellings in MPS: G lo with range w, L hi with range w or -w, E lo with +w, E hi with -w
	auto rform = [&](size_t i) { return m.rows[i].range == 0 ? 0 : (int)((style / 3 + (long)i) % 5); };
	for (size_t i = 0; i < m.rows.size(); i++) { const MRow &r = m.rows[i]; char sn = r.sense; if (sn == 'R') { int f = rform(i); sn = f == 0 ? 'G' : f <= 2 ? 'L' : 'E'; } s += std::string(" ") + sn + " " + r.name + "\n"; }
	s += "COLUMNS\n";
	if (extra_free) s += " zdrop zfree 1\n";
	// an SOS set around a run of columns (files in the wild carry them; the solver ignores the sets, the reader has to digest them)
	bool sos = !ints && style % 13 == 7 && m.cols.size() >= 2; size_t sos_a = sos ? (size_t)(style / 13) % (m.cols.size() - 1) : 0, sos_b = sos ? std::min(m.cols.size(), sos_a + 2 + (size_t)(style / 91) % 3) : 0;
	std::string sos_tag = std::string(style % 2 ? " S1" : " S2") + " SOS 'MARKER' ";
	bool sos_dropped = sos && (style / 13) % 2 == 0;   // a member of the SOS set that the reader drops (it only occurs in a free row that is not the objective)
	for (size_t j = 0; j < m.cols.size(); j++) { const MCol &c = m.cols[j]; bool any = false;
		if (sos && j == sos_b) s += sos_tag + "'SOSEND'\n";
		if (sos && j == sos_a) { s += sos_tag + "'SOSORG'\n"; if (sos_dropped) s += " zdrop2 zfree 1\n"; }
		bool want_int = ints && (j + (size_t)(style / 4)) % 3 == 0;
		if (want_int != in_int) { s += std::string(" MARKER 'MARKER' ") + (want_int ? "'INTORG'" : "'INTEND'") + "\n"; in_int = want_int; }
		if (style % 11 == 5 && j + 1 == m.cols.size()) for (auto &r : m.rows) { auto it = r.coef.find((int)j); if (it != r.coef.end() && it->second != 0) { s += " " + c.name + " " + r.name + " 1\n"; break; } }   // the same entry twice
		if (c.obj != 0) { s += " " + c.name + " obj " + lit(c.obj, style) + "\n"; any = true; }
		for (auto &r : m.rows) { auto it = r.coef.find((int)j); if (it != r.coef.end() && it->second != 0) { s += " " + c.name + " " + r.name + " " + lit(it->second, style + (long)j) + "\n"; any = true; } }
		if (!any) s += " " + c.name + " obj 0\n"; }
	if (in_int) s += " MARKER 'MARKER' 'INTEND'\n";
	if (sos && sos_b >= m.cols.size()) s += sos_tag + "'SOSEND'\n";
	s += "RHS\n"; for (size_t i = 0; i < m.rows.size(); i++) { const MRow &r = m.rows[i]; Q rhs = r.rhs; if (r.sense == 'R') { int f = rform(i); if (f == 1 || f == 2 || f == 4) rhs = r.rhs + r.range; } if (rhs != 0) s += " RHS " + r.name + " " + lit(rhs, style) + "\n"; }
	bool anyr = false; for (auto &r : m.rows) if (r.sense == 'R') anyr = true;
	if (anyr) { s += "RANGES\n"; for (size_t i = 0; i < m.rows.size(); i++) { const MRow &r = m.rows[i]; if (r.sense != 'R') continue; int f = rform(i); Q w = r.range; if (f == 2 || f == 4) w = -w; s += " RNG " + r.name + " " + lit(w, style) + "\n"; } }
	s += "BOUNDS\n";
	for (size_t jj = 0; jj < m.cols.size(); jj++) { const MCol &c = m.cols[jj]; bool marked_int = ints && (jj + (size_t)(style / 4)) % 3 == 0;
		if (!c.lo.fin() && !c.up.fin()) s += " FR BND " + c.name + "\n"; else if (c.lo.fin() && c.up.fin() && c.lo.v == c.up.v) s += " FX BND " + c.name + " " + lit(c.lo.v, style) + "\n";
		else if (marked_int && c.lo.fin() && c.lo.v == 0 && !c.up.fin()) s += " PL BND " + c.name + "\n";   // integer with [0,+inf): without a bound record it would be read as binary
		else { if (!c.lo.fin()) s += " MI BND " + c.name + "\n"; else if (c.lo.v != 0) s += " LO BND " + c.name + " " + lit(c.lo.v, style) + "\n"; if (c.up.fin()) s += " UP BND " + c.name + " " + lit(c.up.v, style) + "\n"; } }
	s += "ENDATA\n"; return s;
}

void Exec::op_foreign(Client &c) {
	const LP *lp = 0; Obj *o = 0;
	if (op->has("o")) { o = pick_obj(c, op->i("o")); if (o && !o->broken) lp = &o->m; }
	if (!lp) lp = get_lp(op->i("lp"));
	if (!lp) { T("  skip"); return; }
	std::string fmt = op->s("fmt", "LP") == "MPS" ? "MPS" : "LP"; std::string path = io_path(op, fmt == "LP" ? ".lp" : ".mps");
	// another producer's names: MPS takes any blank-free text, so a few columns (the integer ones first) get names no LP file could spell
	LP renamed; long bn = op->i("badnames", 0);
	if (bn > 0 && fmt == "MPS" && !lp->cols.empty()) {
		renamed = *lp; static const char *bad[] = {"x[1]", "x[2]", "2nd", "y[1,2]", "a+b", "q*r", "7up", "r<1>", "c=d", "x(3)]", "x^2", "n:5"};   /* no name that reads as a number: free-format MPS tells names from values by their looks */ long st = op->i("style", 0); size_t nc = renamed.cols.size();
		std::vector<size_t> order; for (size_t j = 0; j < nc; j++) if (st % 4 == 1 && (j + (size_t)(st / 4)) % 3 == 0) order.push_back(j); for (size_t j = 0; j < nc; j++) if (!(st % 4 == 1 && (j + (size_t)(st / 4)) % 3 == 0)) order.push_back(j);
		int k = 1 + (int)(bn % 3);
		for (int t = 0; t < k && t < (int)order.size(); t++) { std::string nm = bad[(bn + 5 * t) % 12]; bool used = false; for (auto &cc : renamed.cols) if (cc.name == nm) used = true; for (auto &rr : renamed.rows) if (rr.name == nm) used = true; if (!used) renamed.cols[order[t]].name = nm; }
		lp = &renamed; probe("foreign.names_needing_repair");
	}
	std::string text = fmt == "LP" ? render_lp(*lp, op->i("style", 0)) : render_mps(*lp, op->i("style", 0));
	// a producer with a bug of its own: files whose lines are all well formed but whose structure is not (sections twice, with new
	// names the later sections then use; references to names nobody declared; records out of place)
	int mal = (int)op->i("mal", 0); std::string malwhat;
	if (mal > 0) {
		auto ins_before = [&](const std::string &key, const std::string &what) { size_t p = text.find(key); if (p == std::string::npos) return false; text.insert(p, what); return true; };
		std::string c0 = lp->cols.empty() ? "x0" : lp->cols[0].name, r0 = lp->rows.empty() ? "r0" : lp->rows[0].name;
		if (fmt == "MPS") switch (mal % 16) {
		// a thousand SOS sets of one member each (tables of sets grow in steps; the members are new columns)
		case 14: { std::string sets; for (int t = 0; t < 1000; t++) sets += std::string(t % 2 ? " S1" : " S2") + " SOS 'MARKER' 'SOSORG'\n" + strf(" zs%d obj 1\n", t) + (t % 2 ? " S1" : " S2") + " SOS 'MARKER' 'SOSEND'\n";
			if (ins_before("RHS\n", sets)) malwhat = "a thousand SOS sets"; break; }
		// long exact fractions on one ranged row: every literal within the reader's limits (10000 digits, four-digit exponents), their sum on one
		// line of an LP file far beyond any line buffer (only on small problems: nobody wants to pivot on 30000-digit numbers)
		case 15: { int nd = lp->rows.size() <= 6 && lp->cols.size() <= 8 ? 9999 : 60; uint64_t z = 88172645463325252ull + (uint64_t)mal;
			auto big = [&](int n) { std::string d; for (int k = 0; k < n; k++) { z ^= z << 13; z ^= z >> 7; z ^= z << 17; d.push_back((char)('0' + (k == 0 ? 1 + z % 9 : z % 10))); } d.back() = "1379"[z % 4]; return d; };
			auto drop_line = [&](const std::string &start) { size_t q; while ((q = text.find("\n" + start)) != std::string::npos) { size_t e = text.find('\n', q + 1); text.erase(q, e == std::string::npos ? std::string::npos : e - q); } };
			drop_line(" RHS " + r0 + " "); drop_line(" RNG " + r0 + " ");   // one value per row
			std::string rhs = " RHS " + r0 + " " + big(nd) + "e9999/" + big(nd) + "e-9999\n", rng = " RNG " + r0 + " 1e9999/" + big(nd) + "\n";
			bool has_rng = text.find("\nRANGES\n") != std::string::npos;
			if (!lp->rows.empty() && (has_rng ? ins_before("RANGES\n", rhs) && ins_before("BOUNDS\n", rng) : ins_before("BOUNDS\n", rhs + "RANGES\n" + rng))) malwhat = strf("right-hand side and range of one row as fractions of %d-digit numbers with four-digit exponents", nd); break; }
		case 10: { std::string dup = " RHS " + r0 + " 98765432109876543210/3\n RHS " + r0 + " 12345678901234567890123/7 " + r0 + " 5\n"; if (ins_before("RANGES\n", dup) || ins_before("BOUNDS\n", dup)) malwhat = "a second and third rhs value for one row"; break; }
		case 11: if (ins_before("BOUNDS\n", "RANGES\n RNG " + r0 + " 98765432109876543210/3\n RNG " + r0 + " 12345678901234567890123/7\n")) malwhat = "RANGES section (possibly a second one) with two values for one row"; break;
		case 12: if (ins_before("ENDATA", " UP BND " + c0 + " 98765432109876543210/3\n UP BND " + c0 + " 12345678901234567890123/7\n LO BND " + c0 + " 1/3\n LO BND " + c0 + " 2/3\n FX BND " + c0 + " 4/7\n")) malwhat = "bounds given twice for one column"; break;
		case 13: if (ins_before("BOUNDS\n", " RHS2 " + r0 + " 98765432109876543210/3\n")) malwhat = "a second rhs vector"; break;
		// the second section comes after the first RHS / BOUNDS section has been read: whatever those set up once was sized for the names known then
		case 1: { int k = 2 + (mal / 10) * 12; std::string rows = "ROWS\n", cols = "COLUMNS\n", rhs = "RHS\n", rng = "RANGES\n"; for (int t = 0; t < k; t++) { std::string nm = strf("zr%d", t); rows += std::string(t % 2 ? " G " : " L ") + nm + "\n"; cols += " " + c0 + " " + nm + " " + std::to_string(t + 1) + "\n"; rhs += " RHS " + nm + " 12345678901234567890123/7\n"; rng += " RNG " + nm + " 98765432109876543210/3\n"; }
			if (ins_before("BOUNDS\n", rows + cols + rhs + rng)) malwhat = strf("second ROWS/COLUMNS sections with %d new rows after the first RHS section, second RHS/RANGES using them", k); break; }
		case 2: { int k = 2 + (mal / 10) * 12; std::string cols = "COLUMNS\n", bnd = "BOUNDS\n"; for (int t = 0; t < k; t++) { std::string nm = strf("zc%d", t); cols += " " + nm + " obj 1 " + r0 + " 2\n"; bnd += std::string(t % 3 == 0 ? " UP BND " : t % 3 == 1 ? " LO BND " : " FX BND ") + nm + " 12345678901234567890123/7\n"; }
			if (ins_before("ENDATA", cols + bnd)) malwhat = strf("second COLUMNS section with %d new columns after the first BOUNDS section, second BOUNDS using them", k); break; }
		case 3: if (ins_before("ENDATA", " UP BND no_such_col 3\n")) malwhat = "bound for an undeclared column"; break;
		case 4: if (ins_before("BOUNDS\n", " RHS no_such_row 3\n")) malwhat = "rhs for an undeclared row"; break;
		case 5: if (ins_before("RHS\n", " " + c0 + " " + r0 + " 17\n")) malwhat = "a column continued after other columns"; break;
		case 6: if (ins_before("COLUMNS\n", "RHS\n RHS " + r0 + " 1\n")) malwhat = "RHS section before COLUMNS"; break;
		case 7: if (ins_before("RHS\n", " MARKER 'MARKER' 'INTORG'\n zi1 obj 1\n S1 SOS 'MARKER' 'SOSORG'\n zi2 " + r0 + " 1\n")) malwhat = "integer and SOS markers left open"; break;
		case 8: if (ins_before("ENDATA", " XX BND " + c0 + " 1\n BV BND\n FR\n")) malwhat = "unknown and truncated bound records"; break;
		case 9: if ((mal / 14) % 2 == 0) { if (ins_before("ROWS\n", "OBJSENSE\nOBJNAME\n no_such_obj\nREFROW\n " + r0 + "\n")) malwhat = "empty OBJSENSE, unknown OBJNAME, REFROW"; }
			else if (ins_before("ROWS\n", "REFROW\n no_such_row\n")) malwhat = "REFROW naming an undeclared row"; break;
		default: if (ins_before("COLUMNS\n", " N obj\n L " + r0 + "\n")) malwhat = "objective and a row declared twice"; break;
		}
		else switch (mal % 6) {
		case 1: if (ins_before("Bounds\n", "Subject To\n zr1: " + c0 + " + zc1 <= 4\n") || ins_before("BOUNDS\n", "SUBJECT TO\n zr1: " + c0 + " + zc1 <= 4\n")) malwhat = "second constraint section"; break;
		case 2: if (ins_before("End\n", " -1 <= no_such_col <= 1\n no_such_col2 free\n") || ins_before("END\n", " -1 <= no_such_col <= 1\n")) malwhat = "bounds for undeclared columns"; break;
		case 3: { size_t p = text.rfind("End"); if (p == std::string::npos) p = text.rfind("END"); if (p != std::string::npos) { text.resize(p); malwhat = "no End"; } break; }
		case 4: if (ins_before("Bounds\n", " " + r0 + ": " + c0 + " >= 1\n " + r0 + ": 2 " + c0 + " <= 9\n") || ins_before("BOUNDS\n", " " + r0 + ": " + c0 + " >= 1\n")) malwhat = "row name used twice"; break;
		case 5: if (ins_before("Bounds\n", " zr2: " + c0 + " >= <= 1\n zr3: >= 2\n zr4: 3 " + c0 + " 4 " + c0 + " = = 2\n") || ins_before("BOUNDS\n", " zr2: " + c0 + " >= <= 1\n")) malwhat = "two senses, empty expression"; break;
		default: if (ins_before("Bounds\n", "Integer\n no_such_col " + c0 + "\nGeneral\n") || ins_before("BOUNDS\n", "INTEGER\n no_such_col\n")) malwhat = "integer section in the wrong place naming an undeclared column"; break;
		}
	}
	world.files[path] = store_bytes(path, text);
	{ long st = op->i("style", 0); if (st < 0) st = -st; bool s13 = st % 13 == 7 && st % 4 != 1 && lp->cols.size() >= 2; if (fmt == "MPS" && s13) probe("foreign.sos_sets"); }
	FileInfo f; f.fmt = fmt; f.model = *lp; f.kind = "prob"; f.damaged = true; f.foreign = true; { long st = op->i("style", 0); f.sos = fmt == "MPS" && st % 13 == 7 && st % 4 != 1 && lp->cols.size() >= 2; }   // "damaged": the round-trip law of C08/C09 is about the library's own writer only
	files[path] = f; prob_paths.erase(std::remove(prob_paths.begin(), prob_paths.end(), path), prob_paths.end()); prob_paths.push_back(path);
	T(strf("  foreign %s %s %d bytes hash=%s", fmt.c_str(), path.c_str(), (int)text.size(), hex64(hashstr(text)).c_str()));
	if (trace) { int ln = 0; for (auto &l : split(text, '\n')) { if (ln++ > 80) break; out_line("F   " + l.substr(0, 300)); } }
	// does the text denote exactly the model?  not when the MPS rendering repeats an entry (what a repeated entry means is not defined)
	files[path].precond = !(fmt == "MPS" && modn(op->i("style", 0), 11) == 5);
	// ... and not when an LP rendering spells a name that is no LP token (the renderer does no name repair: "a-b" reads as a difference)
	if (fmt == "LP") { for (auto &cc : lp->cols) if (!plain_name(cc.name)) files[path].precond = false; for (auto &rr : lp->rows) if (!plain_name(rr.name)) files[path].precond = false; }
	if (!malwhat.empty()) { files[path].hit = true; res.faults_fired["io.malformed_problem"]++; T("  malformed: " + malwhat); }
}

// ------------------------------------------------------------------ basis files (C14)
void Exec::op_wbasis(Client &c) {
	Obj *o = pick_obj(c, op->i("o")); if (!o || o->broken) { T("  skip"); return; }
	int n = (int)o->m.cols.size(), m = (int)o->m.rows.size();
	std::string path = io_path(op, ".bas"); arm_file_faults(path);
	bool own = op->s("src", "own") == "own" || c.bases.empty();
	StoredBasis b; QSbasis *B = 0;
	StoredBasis before; bool had = get_basis(*o, before);
	if (own) { if (!had) { T("  skip (object has no basis)"); return; } b = before; }
	else { b = c.bases[modn(op->i("k"), (long)c.bases.size())]; if ((int)b.cstat.size() != n || (int)b.rstat.size() != m) { T("  skip (size mismatch)"); return; }
		BasisEval e = eval_basis(o->m, b.cstat, b.rstat); if (!e.counts_ok) { T("  skip (invalid basis)"); return; }
		for (size_t i = 0; i < b.rstat.size(); i++) if (b.rstat[i] == '2' && o->m.rows[i].sense != 'R') { T("  skip (invalid basis)"); return; }
		B = (QSbasis *)calloc(1, sizeof(QSbasis)); B->nstruct = n; B->nrows = m; B->cstat = (char *)malloc(n + 1); B->rstat = (char *)malloc(m + 1); memcpy(B->cstat, b.cstat.data(), n); memcpy(B->rstat, b.rstat.data(), m); }
	snapshot_others(o);
	std::string snap = snapshot(*o);
	int rv = mpq_QSwrite_basis(o->p, B, path.c_str());
	if (B) { free(B->cstat); free(B->rstat); free(B); }
	after_lib_call("wbasis");
	bool destructive = op->fault("io.write_err") || op->fault("io.short_write") || op->fault("io.close_err") || op->fault("io.open_fail");
	T(strf("  wbasis %s path=%s rv=%d basis=%s|%s", own ? "own" : "given", path.c_str(), rv, b.cstat.c_str(), b.rstat.c_str()));
	signature(std::string("wbasis:") + (own ? "own:" : "given:") + o->life + strf(":%d", rv != 0));
	FileInfo f; f.kind = "basis"; f.model = o->m; f.cstat = b.cstat; f.rstat = b.rstat; f.damaged = destructive || rv != 0 || !world.files.count(path); files[path] = f;
	// writing must not consume or change anything observable, in particular the problem's own basis
	nontrivial("C14");
	StoredBasis after; bool has = get_basis(*o, after);
	if (had && (!has || after.cstat != before.cstat || after.rstat != before.rstat)) violate("C14", std::string("own-basis-consumed:") + (own ? "own" : "given"), "after QSwrite_basis the problem's basis is " + (has ? after.cstat + "|" + after.rstat : std::string("gone")) + ", before it was " + before.cstat + "|" + before.rstat);
	else if (snapshot(*o) != snap) violate("C14", "write-basis-changed-object", "QSwrite_basis changed what is observed of the problem");
	if (rv != 0 && !destructive) { BasisEval e = eval_basis(o->m, b.cstat, b.rstat); if (e.counts_ok) violate("C14", "write-basis-failed", "QSwrite_basis failed for a valid basis " + b.cstat + "|" + b.rstat); }
	compare_others("wbasis");
}

// ------------------------------------------------------------------ foreign producer of basis files: valid ones in layouts the library's
// writer never uses, and files that are well-formed line by line but do not describe a basis (C11: a reader hands back a basis or fails cleanly)
void Exec::op_fbasis(Client &c) {
	Obj *o = pick_obj(c, op->i("o")); if (!o || o->broken) { T("  skip"); return; }
	const LP &m = o->m; size_t n = m.cols.size(), mr = m.rows.size();
	StoredBasis b = make_basis_pattern(m, op->i("pat")); long style = op->i("style", 0); int mal = (int)op->i("mal", 0);
	std::vector<int> bc, nbr, br, nbc; for (size_t j = 0; j < n; j++) (b.cstat[j] == '1' ? bc : nbc).push_back((int)j); for (size_t i = 0; i < mr; i++) (b.rstat[i] == '1' ? br : nbr).push_back((int)i);
	if (bc.size() != nbr.size()) { T("  skip (pattern without a valid basis)"); return; }
	if (style % 2) std::reverse(nbr.begin(), nbr.end());
	std::vector<std::string> lines; std::string done;
	for (size_t k = 0; k < bc.size(); k++) lines.push_back(std::string(b.rstat[nbr[k]] == '2' ? " XU " : " XL ") + m.cols[bc[k]].name + " " + m.rows[nbr[k]].name);
	for (int j : nbc) { if (b.cstat[j] == '2') lines.push_back(" UL " + m.cols[j].name); else if (style % 3 != 0) lines.push_back(" LL " + m.cols[j].name); }
	if (style % 7 == 3) std::reverse(lines.begin(), lines.end());
	auto pickl = [&](const char *pfx) { for (size_t k = 0; k < lines.size(); k++) { size_t q = (k + (size_t)style) % lines.size(); if (lines[q].compare(0, 4, pfx) == 0) return (int)q; } return -1; };
	std::string head = "NAME foreignbasis\n", tail = style % 5 == 4 ? "" : "ENDATA\n";
	switch (mal) {
	case 0: break;
	case 1: { int q = pickl(" XL "); if (q < 0) q = pickl(" XU "); if (q >= 0 && !br.empty()) { std::string col = split(lines[q].substr(4), ' ')[0]; lines.push_back(" XL " + col + " " + m.rows[br[(size_t)style % br.size()]].name); done = "column basic twice"; } break; }
	case 2: { int q = pickl(" XL "); if (q < 0) q = pickl(" XU "); if (q >= 0 && !nbc.empty()) { std::string row = split(lines[q].substr(4), ' ')[1]; lines.push_back(" XL " + m.cols[nbc[(size_t)style % nbc.size()]].name + " " + row); done = "row non-basic twice"; } break; }
	case 3: { for (size_t k = 0; k < lines.size() && done.empty(); k++) if (lines[k].compare(0, 4, " XL ") == 0) { std::string row = split(lines[k].substr(4), ' ')[1]; int i = m.row_index(row); if (i >= 0 && m.rows[i].sense != 'R') { lines[k][2] = 'U'; done = "XU on a row that is not ranged"; } } break; }
	case 4: { int q = pickl(" XL "); if (q < 0) q = pickl(" XU "); if (q >= 0) { std::string col = split(lines[q].substr(4), ' ')[0]; lines.push_back(std::string(style % 2 ? " UL " : " LL ") + col); done = "bound status for a basic column"; } break; }
	case 5: lines.push_back(" XL no_such_column " + (mr ? m.rows[0].name : std::string("r"))); done = "unknown column"; break;
	case 6: if (n) { lines.push_back(" XU " + m.cols[0].name + " no_such_row"); done = "unknown row"; } break;
	case 7: if (mr) { lines.push_back(" LL " + m.rows[0].name); done = "row name where a column is expected"; } break;
	case 8: if (n) { lines.push_back(" XL " + m.cols[(size_t)style % n].name); done = "X line without row"; } break;
	case 9: if (n) { lines.push_back(" BS " + m.cols[0].name); done = "unknown key"; } break;
	case 10: head = ""; done = "no NAME line"; break;
	case 11: head += "NAME again\n"; done = "two NAME lines"; break;
	case 12: { if (!br.empty() && !nbc.empty()) { lines.push_back(" XL " + m.cols[nbc[0]].name + " " + m.rows[br[0]].name); lines.push_back(" LL " + m.cols[nbc[0]].name); done = "column made basic and then put at a bound"; } break; }
	default: break;
	}
	std::string text = head; for (auto &l : lines) text += l + "\n"; text += tail;
	std::string path = io_path(op, ".bas"); world.files[path] = store_bytes(path, text); world.expected_paths.insert(path);
	FileInfo f; f.kind = "basis"; f.model = m; f.cstat = b.cstat; f.rstat = b.rstat; f.damaged = true; f.foreign = true; files[path] = f;
	T(strf("  fbasis %s %d bytes mal=%d (%s) basis=%s|%s hash=%s", path.c_str(), (int)text.size(), mal, done.c_str(), b.cstat.c_str(), b.rstat.c_str(), hex64(hashstr(text)).c_str()));
	if (trace) for (auto &l : split(text, '\n')) out_line("F   " + l);
	if (!done.empty()) res.faults_fired["io.malformed_basis"]++;
	last_fbasis_path = path; last_fbasis_valid = done.empty();
}

void Exec::op_rbasis(Client &c) {
	Obj *o = pick_obj(c, op->i("o")); if (!o || o->broken) { T("  skip"); return; }
	std::vector<std::string> ps; for (auto &kv : files) if (kv.second.kind == "basis") ps.push_back(kv.first);
	std::string path = ps.empty() ? io_path(op, ".bas") : ps[modn(op->i("pick"), (long)ps.size())];
	if (op->i("pick", 0) == -2 && !last_fbasis_path.empty()) path = last_fbasis_path;
	if (op->has("path")) path = io_path(op, ".bas");
	if (op->i("missing", 0)) path = "/sim/nosuchfile.bas";
	arm_file_faults(path);
	bool load = op->s("how", "read") == "load"; bool exists = world.files.count(path) != 0;
	auto fit = files.find(path); bool known = fit != files.end() && fit->second.kind == "basis";
	bool damaged = !known || fit->second.damaged || op->fault("io.read_eio") || op->fault("io.open_fail") || !exists;
	bool same_problem = known && fit->second.model.canon() == o->m.canon();
	snapshot_others(o);
	StoredBasis before; bool had = get_basis(*o, before);
	StoredBasis got; bool have = false; int rv = 0;
	if (load) { rv = mpq_QSread_and_load_basis(o->p, path.c_str()); if (!rv) have = get_basis(*o, got); }
	else { QSbasis *B = mpq_QSread_basis(o->p, path.c_str()); if (B) { have = true; got.cstat.assign(B->cstat ? B->cstat : "", B->cstat ? B->nstruct : 0); got.rstat.assign(B->rstat ? B->rstat : "", B->rstat ? B->nrows : 0); mpq_QSfree_basis(B); } else rv = 1; }
	after_lib_call("rbasis");
	T(strf("  rbasis %s path=%s exists=%d damaged=%d same=%d rv=%d %s", load ? "load" : "read", path.c_str(), exists, damaged, same_problem, rv, have ? (got.cstat + "|" + got.rstat).c_str() : "-"));
	signature(std::string("rbasis:") + (load ? "load:" : "read:") + o->life + strf(":%d%d%d", exists, damaged, rv != 0));
	if (world.max_eof_polls > 64) violate("C11", "eof-spin:basis", "the basis reader polled its source more than 64 times in a row at end of input");
	if (exists && damaged) { nontrivial("C11"); probe(have ? "c11.damaged_basis_accepted" : "c11.damaged_basis_rejected"); }
	if (rv != 0 && load) {   // a failed load leaves the problem as it was
		StoredBasis after; bool has = get_basis(*o, after);
		if (had != has || (had && (after.cstat != before.cstat || after.rstat != before.rstat))) violate("C07", "changed:readandloadbasis:failed", "a failed QSread_and_load_basis changed the problem's basis");
	}
	if (have && ((int)got.cstat.size() != (int)o->m.cols.size() || (int)got.rstat.size() != (int)o->m.rows.size())) { violate("C11", "basis-size", "a basis returned by the reader does not have the problem's dimensions"); compare_others("rbasis"); return; }
	if (have && same_problem) {   // whatever the bytes were: what the reader hands back (or installs) is a basis of this problem - one basic variable per row, "at upper" only for ranged rows
		BasisEval e = eval_basis(o->m, got.cstat, got.rstat); std::string why = e.counts_ok ? "" : "it does not have one basic variable per row (" + e.note + ")";
		for (size_t i = 0; i < got.rstat.size() && why.empty(); i++) if (got.rstat[i] == '2' && o->m.rows[i].sense != 'R') why = strf("row %d is not ranged and is non-basic at upper", (int)i);
		if (!why.empty()) { violate("C11", std::string("basis-invalid:") + (load ? "load" : "read"), "the basis file reader accepted a file and " + std::string(load ? "installed" : "returned") + " " + got.cstat + "|" + got.rstat + ": " + why);
			if (load) o->broken = true; compare_others("rbasis"); return; }
		probe("c11.basis_accepted_valid");
		if (known && fit->second.foreign && last_fbasis_valid && path == last_fbasis_path) { const std::string &wc = fit->second.cstat, &wr = fit->second.rstat; bool same = true; for (size_t j = 0; j < wc.size(); j++) if ((wc[j] == '1') != (got.cstat[j] == '1') || (wc[j] == '2') != (got.cstat[j] == '2')) same = false; for (size_t i = 0; i < wr.size(); i++) if ((wr[i] == '1') != (got.rstat[i] == '1')) same = false; probe(same ? "c14.foreign_basis_read_as_meant" : "c14.foreign_basis_read_differently"); }
	}
	if (have && !damaged && same_problem) {
		nontrivial("C14");
		const std::string &wc = fit->second.cstat, &wr = fit->second.rstat; std::string d;
		for (size_t j = 0; j < wc.size() && d.empty(); j++) { char w = wc[j], r = got.cstat[j]; if ((w == '1') != (r == '1') || (w == '2') != (r == '2')) d = strf("column %d written %c read %c", (int)j, w, r); }
		for (size_t i = 0; i < wr.size() && d.empty(); i++) { char w = wr[i], r = got.rstat[i]; if ((w == '1') != (r == '1') || ((w == '2') != (r == '2') && o->m.rows[i].sense == 'R')) d = strf("row %d written %c read %c", (int)i, w, r); }
		if (!d.empty()) violate("C14", "basis-roundtrip", d + " (written " + wc + "|" + wr + ", read " + got.cstat + "|" + got.rstat + ")");
		else if ([&]() { for (size_t j = 0; j < wc.size(); j++) { const MCol &mc = o->m.cols[j]; if ((wc[j] == '3' && (mc.lo.fin() || mc.up.fin())) || (wc[j] == '2' && !mc.up.fin()) || (wc[j] == '0' && !mc.lo.fin() && mc.up.fin())) return true; } return false; }())
			probe("c14.skipped_status_without_bound");   // a status left over from before a bound edit names a bound the column does not have: not a valid basis of this problem
		else { BasisEval a = eval_basis(o->m, wc, wr), b2 = eval_basis(o->m, got.cstat, got.rstat); if (a.counts_ok && b2.counts_ok && !a.singular && !b2.singular && (a.x != b2.x || a.slack != b2.slack)) violate("C14", "basis-roundtrip-solution", "the basis read back has a different basic solution"); else { probe("c14.roundtrip_ok");
				// "loading it reproduces the same basic solution": when the basis just loaded from the file is an optimal one, the next solve
				// has nothing to do but to answer with exactly its basic solution (another optimal vertex means the loaded basis was not used)
				if (load && a.counts_ok && !a.singular && a.primal_feasible && a.dual_feasible && !o->m.cols.empty() && !o->m.rows.empty()) {
					int st = 0; int n = (int)o->m.cols.size(); world.cur_model = &o->m; int it0 = 0, it1 = 0; mpq_QSget_itcnt(o->p, 0, 0, 0, 0, &it0);
					int srv = modn(step, 2) ? mpq_QSopt_primal(o->p, &st) : mpq_QSopt_dual(o->p, &st); world.cur_model = 0; mpq_QSget_itcnt(o->p, 0, 0, 0, 0, &it1); after_lib_call("rbasis:solve");
					// a solve that starts from an optimal basis has nothing to do: a pivot means it started somewhere else (e.g. from the basis the object had factorized before the load)
					if (!srv && st == QS_LP_OPTIMAL && it1 != it0) violate("C14", "loaded-basis-not-used:pivots", strf("an optimal basis was read and loaded from its file, but the solve that follows made %d pivot(s)", it1 - it0)); else if (!srv && st == QS_LP_OPTIMAL) probe("c14.loaded_basis_no_pivot");
					QArr xa(n); if (!srv && st == QS_LP_OPTIMAL && !mpq_QSget_x_array(o->p, xa.p())) { std::vector<Q> xs(n); for (int j = 0; j < n; j++) xs[j] = lib_to_q(xa.at(j));
						if (xs != a.x) violate("C14", "loaded-basis-not-used", "an optimal basis was read and loaded from its file, but the solve that follows answers with another vertex"); else probe("c14.loaded_basis_reproduced"); }
					else if (!srv && st != QS_LP_OPTIMAL) violate("C14", "loaded-basis-not-used:status", "an optimal basis was read and loaded from its file, but the solve that follows ends " + status_name(st));
					o->ever_solved = true; } } }
	} else if (!have && !damaged && same_problem) violate("C14", "basis-reader-rejects-writer-output", "the basis reader failed on an undamaged file written for the same problem");
	if (have && !load) { got.origin = "file"; c.bases.push_back(got); if (c.bases.size() > 8) c.bases.erase(c.bases.begin()); }
	if (have && load) { o->life = o->life == "empty" ? "empty" : "edited"; }
	compare_others("rbasis");
	check_dump(*o, "after-rbasis");
}
