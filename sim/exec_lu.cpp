// C13, component level: a client drives mpq_ILLfactor_* directly with a history of factor / update / ftran / btran;
// oracle = dense rational reference (model.cpp solve_dense), DESIGN.md 4.5.
#include "exec.hpp"
#include "shim.h"
#include <algorithm>

struct LuState {
	mpq_factor_work *f = 0; int dim = 0; bool factored = false;
	Mat cols;                       // pool of sparse-as-dense columns (each of length dim)
	std::vector<int> basis;         // column of the pool at each basis position
	int updates_since_factor = 0;
	int zeros = 0; uint64_t zseed = 0;   // explicitly stored zero entries (the column store of an LP may hold them)
	// sparse storage handed to ILLfactor (must stay alive while f is in use)
	std::vector<int> cbeg, clen, cindx; mpq_t *ccoef = 0;
	~LuState();
};
LuState::~LuState() { if (f) { mpq_ILLfactor_free_factor_work(f); shim_factor_clearvars(f); free(f); } if (ccoef) shim_mpq_free(ccoef); }

static std::map<int, std::unique_ptr<LuState>> &lu_states(Exec *e) { static std::map<Exec *, std::map<int, std::unique_ptr<LuState>>> all; return all[e]; }
void lu_forget(Exec *e) { lu_states(e).clear(); }

static Q lu_num(uint64_t &s, int fam) {
	s = Rng::mix(s); int k = (int)(s % 9) - 4; if (k == 0) k = 5;
	if (fam == 1) { s = Rng::mix(s); Q v(k, (int)(s % 7) + 1); v.canonicalize(); return v; }
	if (fam == 2) { s = Rng::mix(s); int e = (int)(s % 120) - 60; Q v(k); if (e >= 0) mpq_mul_2exp(v.get_mpq_t(), v.get_mpq_t(), e); else mpq_div_2exp(v.get_mpq_t(), v.get_mpq_t(), -e); return v; }
	return Q(k);
}

static Mat basis_matrix(const LuState &L) { Mat B(L.dim, std::vector<Q>(L.dim)); for (int k = 0; k < L.dim; k++) for (int r = 0; r < L.dim; r++) B[r][k] = L.cols[L.basis[k]][r]; return B; }
static bool dense_singular(const Mat &B) { std::vector<Q> b(B.size(), Q(0)), x; return !solve_dense(B, b, x); }

static int do_factor(LuState &L, int *nsing_out) {
	// (re)build the sparse column storage for the whole pool
	int ncols = (int)L.cols.size(); L.cbeg.assign(ncols, 0); L.clen.assign(ncols, 0); L.cindx.clear(); std::vector<Q> vals;
	for (int c = 0; c < ncols; c++) { L.cbeg[c] = (int)L.cindx.size(); for (int r = 0; r < L.dim; r++) if (L.cols[c][r] != 0 || (L.zeros && Rng::mix(L.zseed + (uint64_t)c * 131 + (uint64_t)r) % (L.zeros == 1 ? 7u : 3u) == 0)) { L.cindx.push_back(r); vals.push_back(L.cols[c][r]); } L.clen[c] = (int)L.cindx.size() - L.cbeg[c]; }
	if (L.ccoef) shim_mpq_free(L.ccoef); L.ccoef = shim_mpq_alloc((int)vals.size() + 1);
	for (size_t k = 0; k < vals.size(); k++) mpq_set(L.ccoef[k], vals[k].get_mpq_t());
	if (L.cindx.empty()) L.cindx.push_back(0);
	mpq_ILLfactor_free_factor_work(L.f);
	int rv = mpq_ILLfactor_create_factor_work(L.f, L.dim); if (rv) return rv;
	int nsing = 0; int *singr = 0, *singc = 0;
	rv = mpq_ILLfactor(L.f, L.basis.data(), L.cbeg.data(), L.clen.data(), L.cindx.data(), L.ccoef, &nsing, &singr, &singc);
	free(singr); free(singc);
	*nsing_out = nsing; L.updates_since_factor = 0;
	return rv;
}

void Exec::op_lu(Client &c) {
	auto &states = lu_states(this); std::unique_ptr<LuState> &slot = states[op->client];
	std::string what = op->s("what", "factor"); (void)c;
	if (what == "factor") {
		int dim = 1 + modn(op->i("dim", 4), (long)plan.knobi("lu.maxdim", 14)); int fam = modn(op->i("fam", 0), 6); uint64_t s = (uint64_t)op->i("seed", 1) * 7919 + 13;
		slot.reset(new LuState); LuState &L = *slot; L.dim = dim; L.zeros = modn(op->i("zeros", 0), 3); L.zseed = s;
		L.f = (mpq_factor_work *)calloc(1, sizeof(mpq_factor_work)); shim_factor_initvars(L.f); mpq_ILLfactor_init_factor_work(L.f);
		// knobs (S8): randomised per run so that refactor requests, space exhaustion and the dense tail all happen
		if (op->has("etamax")) mpq_ILLfactor_set_factor_iparam(L.f, QS_FACTOR_ETAMAX, (int)std::max(1L, op->i("etamax")));
		if (op->has("maxk")) mpq_ILLfactor_set_factor_iparam(L.f, QS_FACTOR_MAX_K, (int)std::max(1L, op->i("maxk")));
		if (op->has("p")) mpq_ILLfactor_set_factor_iparam(L.f, QS_FACTOR_P, (int)std::max(1L, op->i("p")));
		if (op->has("densemin")) mpq_ILLfactor_set_factor_iparam(L.f, QS_FACTOR_DENSE_MIN, (int)std::max(1L, op->i("densemin")));
		if (op->has("spacemul")) { double m = 1.0 + 0.05 * (double)modn(op->i("spacemul"), 40); L.f->ur_space_mul = m; L.f->uc_space_mul = m; L.f->lc_space_mul = m; L.f->er_space_mul = 1.0 + (double)modn(op->i("spacemul"), 7); }
		if (op->has("densefract")) L.f->dense_fract = 0.05 * (double)(1 + modn(op->i("densefract"), 19));
		// pool: dim basis columns + dim spare columns for updates
		int pool = 2 * dim + 2; L.cols.assign(pool, std::vector<Q>(dim));
		int numfam = modn(op->i("num", 0), 3);
		for (int cidx = 0; cidx < pool; cidx++) {
			std::vector<Q> &col = L.cols[cidx];
			switch (fam) {
			case 1: for (int r = 0; r <= cidx % dim; r++) { Q v = lu_num(s, numfam); s = Rng::mix(s); if (r == cidx % dim || s % 3 == 0) col[r] = v; } break;            // upper triangular
			case 2: { s = Rng::mix(s); col[(cidx * 5 + 3) % dim] = lu_num(s, numfam); if (s % 4 == 0) col[s % dim] += lu_num(s, numfam); } break;                          // (near) singletons
			case 3: for (int r = 0; r < dim; r++) col[r] = lu_num(s, numfam); break;                                                                                       // dense
			default: { int nz = 1 + (int)(Rng::mix(s + cidx) % 3); for (int t = 0; t < nz; t++) { s = Rng::mix(s); col[s % dim] = lu_num(s, numfam); } s = Rng::mix(s); if (s % 2) col[cidx % dim] += lu_num(s, numfam); } break;
			}
		}
		L.basis.resize(dim); for (int k = 0; k < dim; k++) L.basis[k] = k;
		if (fam == 4 && dim >= 2) { L.cols[1] = L.cols[0]; Q eps(1); mpq_div_2exp(eps.get_mpq_t(), eps.get_mpq_t(), 80 + modn(op->i("seed"), 50)); L.cols[1][0] += eps; }   // near singular
		if (fam == 5 && dim >= 2) { if (op->i("seed") % 2) L.cols[dim - 1] = L.cols[0]; else for (int r = 0; r < dim; r++) L.cols[dim - 1][r] = L.cols[0][r] * 3 + (dim > 2 ? L.cols[1][r] * 2 : Q(0)); }   // exactly singular
		int nsing = 0; int rv = do_factor(L, &nsing);
		after_lib_call("lu:factor");
		bool sing = dense_singular(basis_matrix(L));
		T(strf("  lu factor dim=%d fam=%d rv=%d nsing=%d dense_singular=%d", dim, fam, rv, nsing, sing));
		signature(strf("lu:factor:%d:%d:%d:%d", dim > 6, fam, nsing > 0, sing));
		L.factored = rv == 0 && nsing == 0;
		nontrivial("C13");
		if (rv == 0 && (nsing > 0) != sing) violate("C13", sing ? "lu-singular-not-reported" : "lu-nonsingular-reported-singular", strf("ILLfactor reported nsing=%d for a matrix whose exact rank deficiency is %s", nsing, sing ? "positive" : "zero"));
		if (rv != 0 && !sing) violate("C13", "lu-factor-failed", strf("ILLfactor failed (rv=%d) on a non-singular matrix", rv));
		if (sing) probe("lu.singular_detected");
		return;
	}
	if (!slot || !slot->f) { T("  skip (no factorization)"); return; }
	LuState &L = *slot; int dim = L.dim;
	if (!L.factored) { T("  skip (not factored)"); return; }
	auto to_sv = [&](const std::vector<Q> &v, mpq_svector &sv) { shim_svector_init(&sv); shim_svector_alloc(&sv, dim); sv.nzcnt = 0; for (int r = 0; r < dim; r++) if (v[r] != 0 || (L.zeros && Rng::mix(L.zseed + 977 * (uint64_t)step + (uint64_t)r) % 5 == 0)) { sv.indx[sv.nzcnt] = r; mpq_set(sv.coef[sv.nzcnt], v[r].get_mpq_t()); sv.nzcnt++; } };
	auto from_sv = [&](mpq_svector &sv, std::vector<Q> &v, std::string &err) { v.assign(dim, Q(0)); for (int k = 0; k < sv.nzcnt; k++) { int ix = sv.indx[k]; if (ix < 0 || ix >= dim) { err = strf("index %d out of range in a solve result", ix); return; } v[ix] += Q(sv.coef[k]); } };
	uint64_t s = (uint64_t)op->i("seed", 1) * 104729 + 7;
	if (what == "ftran" || what == "btran") {
		std::vector<Q> rhs(dim); int nz = 1 + (int)(s % (unsigned)dim); for (int t = 0; t < nz; t++) { s = Rng::mix(s); rhs[s % dim] = lu_num(s, modn(op->i("num", 0), 3)); }
		mpq_svector a, x; to_sv(rhs, a); shim_svector_init(&x); shim_svector_alloc(&x, dim);
		if (what == "ftran") mpq_ILLfactor_ftran(L.f, &a, &x); else mpq_ILLfactor_btran(L.f, &a, &x);
		after_lib_call("lu:" + what);
		std::vector<Q> sol; std::string err; from_sv(x, sol, err);
		shim_svector_free(&a); shim_svector_free(&x);
		Mat B = basis_matrix(L); bool ok = err.empty();
		if (ok) for (int r = 0; r < dim && ok; r++) { Q acc = 0; if (what == "ftran") { for (int k = 0; k < dim; k++) acc += B[r][k] * sol[k]; } else { for (int k = 0; k < dim; k++) acc += sol[k] * B[k][r]; } if (acc != rhs[r]) ok = false; }
		T(strf("  lu %s ok=%d updates_since_factor=%d", what.c_str(), ok, L.updates_since_factor));
		if (!ok && trace && dim <= 3) { std::string d = "B="; for (int r = 0; r < dim; r++) { for (int k = 0; k < dim; k++) d += qstr(B[r][k]) + " "; d += "; "; } d += " rhs="; for (auto &v : rhs) d += qstr(v) + " "; d += " sol="; for (auto &v : sol) d += qstr(v) + " "; out_line("L   " + d); }
		signature("lu:" + what + strf(":%d:%d", L.updates_since_factor > 5 ? 9 : L.updates_since_factor, ok));
		nontrivial("C13"); probe(strf("lu.solve.updates.%d", L.updates_since_factor > 9 ? 9 : L.updates_since_factor));
		if (!ok) violate("C13", "lu-" + what + (err.empty() ? "" : ":index"), err.empty() ? strf("%s result does not satisfy the system exactly (%d updates since the last factorization)", what.c_str(), L.updates_since_factor) : err);
		return;
	}
	if (what == "update") {
		int pos = modn(op->i("pos", 0), dim); int newcol = dim + modn(op->i("col", 0), (long)L.cols.size() - dim);
		if (std::find(L.basis.begin(), L.basis.end(), newcol) != L.basis.end()) { T("  skip (column already basic)"); return; }
		if (op->i("mutate", 0)) { s = Rng::mix(s); L.cols[newcol][s % dim] += lu_num(s, modn(op->i("num", 0), 3)); }
		std::vector<Q> acol = L.cols[newcol];
		mpq_svector a, upd, x; to_sv(acol, a); shim_svector_init(&upd); shim_svector_alloc(&upd, dim); shim_svector_init(&x); shim_svector_alloc(&x, dim);
		mpq_ILLfactor_ftran_update(L.f, &a, &upd, &x);
		// the solve part of ftran_update must be exact too
		{ std::vector<Q> sol; std::string err; from_sv(x, sol, err); Mat B = basis_matrix(L); bool ok = err.empty(); for (int r = 0; r < dim && ok; r++) { Q acc = 0; for (int k = 0; k < dim; k++) acc += B[r][k] * sol[k]; if (acc != acol[r]) ok = false; } if (!ok) violate("C13", "lu-ftran_update", "ftran_update result does not satisfy the system exactly"); }
		int refact = 0; int rv = mpq_ILLfactor_update(L.f, &upd, pos, &refact);   // goes through the S8 wrapper (lu.refactor)
		after_lib_call("lu:update");
		shim_svector_free(&a); shim_svector_free(&upd); shim_svector_free(&x);
		int old = L.basis[pos]; L.basis[pos] = newcol; bool sing = dense_singular(basis_matrix(L));
		T(strf("  lu update pos=%d col=%d rv=%d refact=%d new_matrix_singular=%d", pos, newcol, rv, refact, sing));
		signature(strf("lu:update:rv%d:refact%d:sing%d", rv, refact, sing)); nontrivial("C13");
		probe(strf("lu.update.rv%d", rv)); if (refact) probe("lu.update.refactor_requested");
		if (rv == 0 && !refact) { L.updates_since_factor++;
			if (sing) { violate("C13", "lu-update-accepted-singular", "ILLfactor_update accepted a column replacement that makes the basis singular"); L.factored = false; } }
		else {   // refused or refactor demanded: the caller refactors (what ILLbasis_update does)
			if (sing) { L.basis[pos] = old; int ns = 0; int r2 = do_factor(L, &ns); L.factored = r2 == 0 && ns == 0; probe("lu.update.singular_refused"); }
			else { int ns = 0; int r2 = do_factor(L, &ns); after_lib_call("lu:refactor"); L.factored = r2 == 0 && ns == 0; if (r2 != 0 || ns != 0) violate("C13", "lu-refactor-failed", strf("refactorization after an update failed (rv=%d nsing=%d) on a non-singular matrix", r2, ns)); }
		}
		return;
	}
	T("  unknown lu op");
}
