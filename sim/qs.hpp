// Single place where the library's own headers are pulled into C++.
// System headers first (they must not be seen for the first time inside extern "C").
#pragma once
#include <gmp.h>
#include <gmpxx.h>
#include <stdio.h>
#include <stdlib.h>
#include <string.h>
#include <math.h>
#include <zlib.h>
#include <bzlib.h>
#include <errno.h>
#include <limits.h>
#include <float.h>
#include <stdarg.h>
#include <stdint.h>
#include <unistd.h>
#include <sys/resource.h>
#include <sys/time.h>
#include <time.h>
#include <signal.h>
#include <setjmp.h>
#include <assert.h>
#include <inttypes.h>
#include <getopt.h>
#include <strings.h>
extern "C" {
#include "QSopt_ex.h"
#include "factor_mpq.h"
}
// the library headers define a few macros that collide with C++ code
#ifdef SWAP
#undef SWAP
#endif
