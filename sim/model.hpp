// Reference model of an LP and the exact oracles of DESIGN.md section 4.
// Nothing here calls the library; all arithmetic is gmpxx rationals.
#pragma once
#include <gmpxx.h>
#include <string>
#include <vector>
#include <map>
#include "util.hpp"

typedef mpq_class Q;

struct Num {             // extended rational: inf = -1 / 0 / +1
	int inf = 0;
	Q v;
	Num() {}
	Num(const Q &q) : inf(0), v(q) {}
	static Num pinf() { Num n; n.inf = 1; return n; }
	static Num ninf() { Num n; n.inf = -1; return n; }
	bool fin() const { return inf == 0; }
	bool operator==(const Num &o) const { return inf == o.inf && (inf != 0 || v == o.v); }
	bool operator!=(const Num &o) const { return !(*this == o); }
};
std::string qstr(const Q &q);
std::string numstr(const Num &n);
bool parse_q(const std::string &s, Q &out);      // "p", "p/q", "-p/q", decimal "1.25", "2^k", "a*2^k"
bool parse_num(const std::string &s, Num &out);  // additionally "inf", "-inf"
int cmp(const Num &a, const Num &b);

struct MCol { std::string name; Q obj; Num lo, up; bool isint = false; };
struct MRow { std::string name; char sense = 'L'; Q rhs; Q range; std::map<int, Q> coef; };

struct LP {
	std::string name = "p";
	int objsense = 1;   // +1 min, -1 max
	std::vector<MCol> cols;
	std::vector<MRow> rows;
	int lib_nzcount = -1;   // filled by a library dump: what QSget_nzcount said
	// coefficient maps may hold explicit zeros (QSchange_coef(...,0) keeps the entry); they are not part of the canonical form
	int nz() const { int n = 0; for (auto &r : rows) for (auto &kv : r.coef) if (kv.second != 0) n++; return n; }
	int zeros() const { int n = 0; for (auto &r : rows) for (auto &kv : r.coef) if (kv.second == 0) n++; return n; }
	// canonical text; with_names=false drops names (used for comparing re-read problems by position)
	std::string canon(bool with_range_of_nonR = false) const;
	void del_cols(const std::vector<int> &sorted_unique);
	void del_rows(const std::vector<int> &sorted_unique);
	int col_index(const std::string &n) const { for (size_t j = 0; j < cols.size(); j++) if (cols[j].name == n) return (int)j; return -1; }
	int row_index(const std::string &n) const { for (size_t i = 0; i < rows.size(); i++) if (rows[i].name == n) return (int)i; return -1; }
	bool well_formed(std::string *why = 0) const;
	bool moderate(int bits = 600) const;   // every number has numerator and denominator below 2^bits (C03: "data of moderate bit-size")   // lower<=upper, range>=0
};

struct Verdict { bool ok = true; std::string why; static Verdict bad(const std::string &w) { Verdict v; v.ok = false; v.why = w; return v; } };

// 4.2 optimal: x (structural), pi (rows); rc/slack/val optional (null = not checked)
Verdict check_optimal(const LP &lp, const std::vector<Q> &x, const std::vector<Q> &pi,
                      const std::vector<Q> *rc, const std::vector<Q> *slack, const Q *val);
// 4.2 Farkas; orientation_out: +1 library orientation, -1 negated
Verdict check_farkas(const LP &lp, const std::vector<Q> &y, int *orientation_out = 0);
// 4.2 ray: x feasible, d keeps feasibility, improves objective strictly
Verdict check_ray(const LP &lp, const std::vector<Q> &x, const std::vector<Q> &d);
Verdict check_feasible(const LP &lp, const std::vector<Q> &x);

// 4.3 reference solver.  status: 1 optimal, 2 infeasible, 3 unbounded, 0 not attempted (too big)
struct RefResult {
	int status = 0;
	Q value;
	std::vector<Q> x, pi;      // optimal
	std::vector<Q> y;          // infeasible: Farkas multipliers (library orientation)
	std::vector<Q> ray;        // unbounded: with x a feasible point
	int pivots = 0;
	std::string err;           // non-empty: the reference solver could not certify its own answer
};
RefResult ref_solve(const LP &lp, int max_rows = 12, int max_cols = 12);

// 4.4 basis algebra.  cstat over structurals ('0' lower,'1' basic,'2' upper,'3' free), rstat over rows ('0','1','2')
struct BasisEval {
	bool counts_ok = false;   // exactly nrows basic
	bool singular = false;
	bool primal_feasible = false, dual_feasible = false;
	Q pobj, dobj;             // in the user's sense (c.x and the dual objective)
	std::vector<Q> x, slack, pi, rc, rc_logical;   // structural x; slack = logical values; pi in user's sign convention
	std::string note;
};
BasisEval eval_basis(const LP &lp, const std::string &cstat, const std::string &rstat);

// dense helpers shared with the LU reference (4.5)
typedef std::vector<std::vector<Q>> Mat;
bool solve_dense(Mat a, std::vector<Q> b, std::vector<Q> &x);   // false if singular
