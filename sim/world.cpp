#include "world.hpp"
#include <sys/mman.h>
#include <fcntl.h>
#include <malloc.h>

World *W = 0;
static World g_idle_world;   // used when the library calls a seam outside a run (never has faults)
static World *world() { return W ? W : &g_idle_world; }

// S6b: what an operation finds in stack memory it never wrote is part of the simulated world too.  A long-lived worker and
// a fresh replay process reach an operation over different call histories; without this the bytes below the current frame
// would differ between them, and a library read of an uninitialised local would replay differently.  The pattern follows
// the allocator's fill pattern, so the C17 twin runs vary it.
#if defined(__clang__)
__attribute__((noinline, no_sanitize("address")))
#else
__attribute__((noinline))
#endif
static void scrub_stack(int pat) {
	volatile char buf[384 * 1024];
	memset((void *)buf, pat, sizeof buf);
	__asm__ volatile("" : : "r"(buf) : "memory");
}
void World::begin_op(const Op *op) {
	{ unsigned char b = fill_on ? (unsigned char)(0xA5 ^ (fill_seed * 37u)) : 0; if (fill_on && !b) b = 0x5A; scrub_stack(b); }
	cur_op = op; reads_in_op = 0; limit_at_read = -1; jump = 0; ladder_cut_in_op = 0;
	log.clear(); log_marks.clear(); stage = 0; stages.clear(); copy_mismatch.clear();
	expected_paths.clear(); cancel_at = -1; reporter_calls = 0; max_eof_polls = 0; eof_polls = 0;
}
void World::end_op() { cur_op = 0; cur_model = 0; limit_at_read = -1; cancel_at = -1; ffaults.clear(); /* faults belong to the op that carries them */ }

// ------------------------------------------------------------------ std stream capture
int real_out_fd = 1;
static int cap_fd[3] = {-1, -1, -1};
void capture_init() {
	real_out_fd = dup(1);
	for (int k = 1; k <= 2; k++) {
		cap_fd[k] = memfd_create(k == 1 ? "cap1" : "cap2", 0);
		dup2(cap_fd[k], k);
	}
	setvbuf(stdout, 0, _IONBF, 0);
}
std::string capture_drain(int which) {
	fflush(stdout); fflush(stderr);
	int fd = cap_fd[which]; if (fd < 0) return "";
	off_t n = lseek(fd, 0, SEEK_END);
	std::string s;
	if (n > 0) { s.resize(n); ssize_t r = pread(fd, &s[0], n, 0); if (r < 0) r = 0; s.resize(r); if (ftruncate(fd, 0)) {} }
	lseek(fd, 0, SEEK_SET);
	return s;
}
void out_line(const std::string &s) {
	std::string t = s + "\n"; size_t off = 0;
	while (off < t.size()) { ssize_t w = write(real_out_fd, t.data() + off, t.size() - off); if (w <= 0) break; off += w; }
}

// ------------------------------------------------------------------ log + reporter
static const char *MARKS[] = {"Retesting solution", "Re-using previous basis", "Not-using previous basis", "Trying mpf with", "Trying double precision",
	"Problem Solved Exactly", "Problem Is Infeasible", "double approximation failed", "falied", "Re-trying inextended precision", "Unbounded", 0};
extern "C" void sim_log_handler(const char *msg, void *data) {
	World *w = world(); (void)data;
	w->log_total++;
	if (!msg) { w->log_null++; return; }
	if (w->log.size() < 200) w->log.push_back(std::string(msg).substr(0, 300));
	if (!w->log_expect.empty()) { if (const char *at = strstr(msg, w->log_expect.c_str())) { w->log_expect_full++; if (!w->log_expect_tail_set) { w->log_expect_tail = at + w->log_expect.size(); w->log_expect_tail_set = true; } } if (strstr(msg, w->log_expect.substr(0, 40).c_str())) w->log_expect_prefix++; }
	{   // "delivered as a complete message": a single character, or nothing but punctuation, is a piece of a message
		size_t n = strlen(msg); while (n && (msg[n - 1] == '\n' || msg[n - 1] == '\r')) n--;
		bool punct = n > 0 && n <= 3; for (size_t k = 0; k < n && punct; k++) if (!strchr("\":;,.' \t", msg[k])) punct = false;
		if (n == 1 || punct) { if (!w->log_fragments) w->log_fragment_first = std::string(msg, n); w->log_fragments++; }
	}
	for (int i = 0; MARKS[i]; i++) if (strstr(msg, MARKS[i])) w->log_marks[MARKS[i]]++;
}
extern "C" int sim_reporter(void *dest, const char *s) {
	World *w = world(); (void)dest;
	w->reporter_calls++;
	if (w->reporter_is_sink && s) w->reporter_sink += s;
	if (w->cancel_at >= 0 && w->reporter_calls > w->cancel_at) { w->cancel_fired++; return -1; }
	return 0;
}

// ------------------------------------------------------------------ clock (S1)
extern "C" double __wrap_ILLutil_zeit(void) {
	World *w = world();
	w->reads_total++; w->reads_in_op++;
	w->now += w->step;
	if (w->limit_at_read >= 0 && w->reads_in_op > w->limit_at_read) { w->now += w->jump; w->limit_at_read = -1; w->clk_fired++; }
	return w->now;
}
extern "C" int sim_getrusage(int who, struct rusage *ru) {
	(void)who; World *w = world(); memset(ru, 0, sizeof *ru);
	w->now += w->step; double t = w->now; ru->ru_utime.tv_sec = (time_t)t; ru->ru_utime.tv_usec = (suseconds_t)((t - (double)(time_t)t) * 1e6);
	return 0;
}
extern "C" time_t sim_time(time_t *t) { World *w = world(); time_t v = (time_t)(1700000000 + (long)w->now); if (t) *t = v; return v; }

// ------------------------------------------------------------------ allocator (S6)
extern "C" void *sim_malloc(size_t n) {
	World *w = world(); w->allocs++;
	void *p = malloc(n);
	if (p && w->fill_on && n) { unsigned char b = (unsigned char)(0xA5 ^ (w->fill_seed * 37u)); if (!b) b = 0x5A; memset(p, b, n); }
	return p;
}
extern "C" void *sim_calloc(size_t a, size_t b) { world()->allocs++; return calloc(a, b); }
extern "C" void *sim_realloc(void *p, size_t n) {
	World *w = world();
	if (!p) return sim_malloc(n);
	size_t old = malloc_usable_size(p);
	void *q = realloc(p, n);
	if (q && w->fill_on && n > old) { unsigned char b = (unsigned char)(0xA5 ^ (w->fill_seed * 37u)); if (!b) b = 0x5A; memset((char *)q + old, b, n - old); }
	return q;
}
extern "C" void sim_free(void *p) {
	if (!p) return; World *w = world(); w->frees++;
#if !SIM_ASAN
	if (w->fill_on) { size_t n = malloc_usable_size(p); memset(p, 0xDD, n); }
#endif
	free(p);
}

// ------------------------------------------------------------------ disk (S5)
bool disk_exists(const std::string &path) { return world()->files.count(path) != 0; }

struct Cookie { std::string path; std::string data; size_t pos = 0; bool writing = false, append = false; FileFaults ff; bool failed = false; long polls = 0; };

static ssize_t ck_read(void *c, char *buf, size_t n) {
	Cookie *k = (Cookie *)c; World *w = world();
	if (k->writing) { errno = EBADF; return -1; }
	size_t avail = k->data.size() - k->pos;
	if (k->ff.read_eio_at >= 0 && (long)k->pos >= k->ff.read_eio_at) {
		k->polls++; if (k->polls > w->max_eof_polls) w->max_eof_polls = k->polls;
		w->io_fired["io.read_eio"]++; errno = EIO; return -1; }
	if (avail == 0) { k->polls++; if (k->polls > w->max_eof_polls) w->max_eof_polls = k->polls; return 0; }
	k->polls = 0;
	if (n > avail) n = avail;
	if (k->ff.chunk > 0 && n > (size_t)k->ff.chunk) { n = k->ff.chunk; w->io_fired["io.chunk"]++; }
	if (k->ff.read_eio_at >= 0 && (long)(k->pos + n) > k->ff.read_eio_at) n = k->ff.read_eio_at - k->pos;
	if (n == 0) { w->io_fired["io.read_eio"]++; errno = EIO; return -1; }
	memcpy(buf, k->data.data() + k->pos, n); k->pos += n; return (ssize_t)n;
}
static ssize_t ck_write(void *c, const char *buf, size_t n) {
	Cookie *k = (Cookie *)c; World *w = world();
	if (!k->writing) { errno = EBADF; return 0; }
	long at = (long)k->data.size();
	if (k->ff.write_err_at >= 0 && at + (long)n > k->ff.write_err_at) {
		size_t keep = k->ff.write_err_at > at ? (size_t)(k->ff.write_err_at - at) : 0;
		k->data.append(buf, keep); k->failed = true; w->io_fired["io.write_err"]++; w->damaged_paths.insert(k->path); errno = ENOSPC; return 0; }
	if (k->ff.short_write_at >= 0 && at + (long)n > k->ff.short_write_at && !k->failed) {
		size_t keep = k->ff.short_write_at > at ? (size_t)(k->ff.short_write_at - at) : 0;
		if (keep == 0) keep = n > 1 ? n / 2 : n;
		k->data.append(buf, keep); k->ff.short_write_at = -1; w->io_fired["io.short_write"]++; return (ssize_t)keep; }
	k->data.append(buf, n); return (ssize_t)n;
}
static int ck_close(void *c) {
	Cookie *k = (Cookie *)c; World *w = world(); int rv = 0;
	if (k->writing) w->files[k->path] = k->data;
	if (k->ff.close_err) { w->io_fired["io.close_err"]++; w->damaged_paths.insert(k->path); errno = EIO; rv = -1; }
	delete k; return rv;
}
static FileFaults take_faults(World *w, const std::string &path) {
	FileFaults ff; auto it = w->ffaults.find(path); if (it != w->ffaults.end()) { ff = it->second; w->ffaults.erase(it); } return ff;
}
static void note_path(World *w, const std::string &path) { if (!w->expected_paths.count(path)) w->stray.push_back(path); }

FILE *sim_open_cookie(const std::string &path, const char *mode) {
	World *w = world();
	FileFaults ff = take_faults(w, path);
	if (ff.open_errno) { w->io_fired["io.open_fail"]++; errno = ff.open_errno; return NULL; }
	bool rd = mode[0] == 'r', ap = mode[0] == 'a';
	if (rd && !w->files.count(path)) { errno = ENOENT; return NULL; }
	Cookie *k = new Cookie; k->path = path; k->ff = ff; k->writing = !rd; k->append = ap;
	if (rd) k->data = w->files[path]; else if (ap && w->files.count(path)) k->data = w->files[path];
	if (!rd) w->files[path] = k->data;
	cookie_io_functions_t io; io.read = ck_read; io.write = ck_write; io.seek = NULL; io.close = ck_close;
	FILE *f = fopencookie(k, rd ? "r" : "w", io);
	if (!f) { delete k; return NULL; }
	return f;
}
extern "C" FILE *sim_fopen(const char *path, const char *mode) { World *w = world(); note_path(w, path); return sim_open_cookie(path, mode); }
extern "C" FILE *sim_fopen64(const char *path, const char *mode) { return sim_fopen(path, mode); }

// gz / bz2: the real zlib / libbz2 code runs on a memfd whose bytes come from / go back to SimDisk
struct ZHandle { std::string path; int fd; bool writing; int close_err; };
static std::map<void *, ZHandle> g_z;

static int z_prepare(World *w, const char *path, const char *mode, ZHandle &h) {
	note_path(w, path);
	FileFaults ff = take_faults(w, path);
	if (ff.open_errno) { w->io_fired["io.open_fail"]++; errno = ff.open_errno; return -1; }
	bool rd = strchr(mode, 'r') != 0;
	if (rd && !w->files.count(path)) { errno = ENOENT; return -1; }
	int fd = memfd_create("simz", 0); if (fd < 0) return -1;
	if (rd) { std::string d = w->files[path];
		if (ff.read_eio_at >= 0 && (size_t)ff.read_eio_at < d.size()) { d.resize(ff.read_eio_at); w->io_fired["io.read_eio"]++; }
		size_t off = 0; while (off < d.size()) { ssize_t r = write(fd, d.data() + off, d.size() - off); if (r <= 0) break; off += r; }
		lseek(fd, 0, SEEK_SET); }
	else w->files[path] = "";
	h.path = path; h.fd = fd; h.writing = !rd; h.close_err = ff.close_err;
	return 0;
}
static void z_finish(World *w, ZHandle &h) {
	if (h.writing) { off_t n = lseek(h.fd, 0, SEEK_END); std::string d; if (n > 0) { d.resize(n); ssize_t r = pread(h.fd, &d[0], n, 0); if (r < 0) r = 0; d.resize(r); } w->files[h.path] = d; }
	close(h.fd);
}
extern "C" gzFile sim_gzopen(const char *path, const char *mode) {
	World *w = world(); ZHandle h; if (z_prepare(w, path, mode, h)) return NULL;
	gzFile g = gzdopen(dup(h.fd), mode); if (!g) { close(h.fd); return NULL; }
	g_z[(void *)g] = h; return g;
}
extern "C" gzFile sim_gzopen64(const char *path, const char *mode) { return sim_gzopen(path, mode); }
extern "C" int sim_gzclose(gzFile g) {
	World *w = world(); int rv = gzclose(g);
	auto it = g_z.find((void *)g); if (it != g_z.end()) { z_finish(w, it->second); if (it->second.close_err) { rv = Z_ERRNO; w->io_fired["io.close_err"]++; } g_z.erase(it); }
	return rv;
}
extern "C" BZFILE *sim_bzopen(const char *path, const char *mode) {
	World *w = world(); ZHandle h; if (z_prepare(w, path, mode, h)) return NULL;
	BZFILE *b = BZ2_bzdopen(dup(h.fd), mode); if (!b) { close(h.fd); return NULL; }
	g_z[(void *)b] = h; return b;
}
extern "C" void sim_bzclose(BZFILE *b) {
	World *w = world(); BZ2_bzclose(b);
	auto it = g_z.find((void *)b); if (it != g_z.end()) { z_finish(w, it->second); g_z.erase(it); }
}

static std::string z_roundtrip(const std::string &in, bool bz, bool compress, bool *ok) {
	// uses the real libraries through a memfd, outside the simulated disk
	*ok = true; int fd = memfd_create("zrt", 0); std::string out;
	if (compress) {
		if (bz) { BZFILE *b = BZ2_bzdopen(dup(fd), "wb"); if (!in.empty()) BZ2_bzwrite(b, (void *)in.data(), (int)in.size()); BZ2_bzclose(b); }
		else { gzFile g = gzdopen(dup(fd), "wb9"); if (!in.empty()) gzwrite(g, in.data(), (unsigned)in.size()); gzclose(g); }
		off_t n = lseek(fd, 0, SEEK_END); out.resize(n); if (n > 0 && pread(fd, &out[0], n, 0) != n) *ok = false;
	} else {
		if (!in.empty() && write(fd, in.data(), in.size()) != (ssize_t)in.size()) *ok = false;
		lseek(fd, 0, SEEK_SET); char buf[4096];
		if (bz) { BZFILE *b = BZ2_bzdopen(dup(fd), "rb"); int r; while ((r = BZ2_bzread(b, buf, sizeof buf)) > 0) out.append(buf, r); int e; BZ2_bzerror(b, &e); if (e != BZ_OK && e != BZ_STREAM_END) *ok = false; BZ2_bzclose(b); }
		else { gzFile g = gzdopen(dup(fd), "rb"); int r; while ((r = gzread(g, buf, sizeof buf)) > 0) out.append(buf, r); if (r < 0) *ok = false; gzclose(g); }
	}
	close(fd); return out;
}
std::string gz_compress(const std::string &raw) { bool ok; return z_roundtrip(raw, false, true, &ok); }
std::string bz_compress(const std::string &raw) { bool ok; return z_roundtrip(raw, true, true, &ok); }
bool gz_decompress(const std::string &z, std::string &raw) { bool ok; raw = z_roundtrip(z, false, false, &ok); return ok; }
bool bz_decompress(const std::string &z, std::string &raw) { bool ok; raw = z_roundtrip(z, true, false, &ok); return ok; }

// ------------------------------------------------------------------ LU seam (S8)
extern "C" int __wrap_mpq_ILLfactor_update(mpq_factor_work *f, mpq_svector *a, int col, int *p_refact) {
	World *w = world();
	int rv = __real_mpq_ILLfactor_update(f, a, col, p_refact);
	w->lu_updates++;
	if (rv == 0 && w->lu_refactor_every > 0 && (w->lu_updates % w->lu_refactor_every) == 0 && p_refact && !*p_refact) { *p_refact = 1; w->lu_forced++; }
	return rv;
}
extern "C" int __wrap_mpq_ILLfactor(mpq_factor_work *f, int *basis, int *cbeg, int *clen, int *cindx, mpq_t *ccoef, int *p_nsing, int **p_singr, int **p_singc) {
	world()->lu_factors++;
	return __real_mpq_ILLfactor(f, basis, cbeg, clen, cindx, ccoef, p_nsing, p_singr, p_singc);
}

// ------------------------------------------------------------------ esolver process seams (S10)
extern "C" int sim_setrlimit(int r, const struct rlimit *l) { (void)r; (void)l; return 0; }
typedef void (*sighandler_fn)(int);
extern "C" sighandler_fn sim_signal(int s, sighandler_fn h) { (void)s; (void)h; return SIG_DFL; }
int sim_child_pipe = -1;   // >= 0 in a forked esolver child: where the simulated disk is shipped back at exit
static void put_all(int fd, const void *p, size_t n) { const char *c = (const char *)p; while (n) { ssize_t w = write(fd, c, n); if (w <= 0) return; c += w; n -= (size_t)w; } }
extern "C" void sim_child_finish(int code) {
	fflush(NULL);
	if (sim_child_pipe >= 0 && W) { for (auto &kv : W->files) { uint32_t pl = (uint32_t)kv.first.size(), dl = (uint32_t)kv.second.size(); put_all(sim_child_pipe, &pl, 4); put_all(sim_child_pipe, kv.first.data(), pl); put_all(sim_child_pipe, &dl, 4); put_all(sim_child_pipe, kv.second.data(), dl); } close(sim_child_pipe); }
	_exit(code & 0xff);
}
extern "C" void sim_exit(int code) { sim_child_finish(code); }
