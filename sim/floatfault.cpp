// S2: the floating-point sub-solves of the exact driver.  exact.o's references to the functions below are
// redirected here (objcopy, redef_exact.txt).  Each wrapper calls the real function first and then, only if the
// current op carries a flt.* fault for the current ladder stage, alters what exact.c gets to see.
#include "world.hpp"
#include "shim.h"
#include <cmath>

static World *world() { static World idle; return W ? W : &idle; }

// faults of the current op that apply to the stage in progress
static std::vector<const Fault *> stage_faults(const char *kind) {
	std::vector<const Fault *> out; World *w = world();
	if (!w->cur_op) return out;
	int st = w->stage - 1;
	for (auto &f : w->cur_op->faults) if (f.kind == kind) { long s = fi(f, "stage", -1); if (s < 0 || s == st) out.push_back(&f); }
	return out;
}
static void fired(const char *kind) { World *w = world(); w->flt_fired[kind]++; if (!w->stages.empty()) w->stages.back().faults.push_back(kind); }

static int lie_status_for_stage() {
	auto v = stage_faults("flt.status"); if (v.empty()) return 0;
	static const int st[] = {QS_LP_OPTIMAL, QS_LP_INFEASIBLE, QS_LP_UNBOUNDED, QS_LP_ITER_LIMIT, QS_LP_TIME_LIMIT, QS_LP_UNSOLVED, QS_LP_NUMERR};
	long t = fi(*v[0], "to", 0); long n = t % 7; if (n < 0) n += 7;
	if (fi(*v[0], "alt", 0)) n = (n + (world()->stage - 1)) % 2;   // alternating claims: OPTIMAL at one precision, INFEASIBLE at the next
	return st[n];
}

// ------------------------------------------------------------------ C16: reduced precision copies
static bool dbl_close(double d, const Q &q) {
	// outside the range of a double the property says nothing ("each finite number within one unit in the last place"):
	// overflow to infinity, the largest double, or a denormal/zero for tiny values are all accepted there
	Q big; mpq_set_d(big.get_mpq_t(), 1.7e308); Q tiny; mpq_set_d(tiny.get_mpq_t(), 2.3e-308);
	if (abs(q) >= big) return !(d == d) ? false : (q > 0 ? d > 1e300 : d < -1e300);
	if (q != 0 && abs(q) < tiny) return fabs(d) < 1e-300;
	if (!std::isfinite(d)) return false;
	Q qd; mpq_set_d(qd.get_mpq_t(), d);
	if (qd == q) return true;
	if (q == 0 || d == 0) return false;
	double dl = nextafter(d, -INFINITY), dh = nextafter(d, INFINITY);
	Q lo, hi; if (std::isfinite(dl)) mpq_set_d(lo.get_mpq_t(), dl); else lo = -big; if (std::isfinite(dh)) mpq_set_d(hi.get_mpq_t(), dh); else hi = big;
	return lo < q && q < hi;
}
static bool mpf_close(mpf_t f, const Q &q) {
	Q qf; mpq_set_f(qf.get_mpq_t(), f);
	if (qf == q) return true;
	if (q == 0 || qf == 0) return false;
	unsigned long prec = mpf_get_prec(f);
	Q tol = abs(q); mpq_div_2exp(tol.get_mpq_t(), tol.get_mpq_t(), prec > 2 ? prec - 1 : 1);
	return abs(qf - q) <= tol;
}
static bool num_ok_dbl(double d, const Num &n) {
	if (n.inf > 0) return d == dbl_ILL_MAXDOUBLE;
	if (n.inf < 0) return d == dbl_ILL_MINDOUBLE;
	return dbl_close(d, n.v);
}
static bool num_ok_mpf(mpf_t f, const Num &n) {
	if (n.inf > 0) return mpf_cmp(f, mpf_ILL_MAXDOUBLE) == 0;
	if (n.inf < 0) return mpf_cmp(f, mpf_ILL_MINDOUBLE) == 0;
	return mpf_close(f, n.v);
}

static void check_copy_dbl(dbl_QSdata *p) {
	World *w = world(); const LP *m = w->cur_model; if (!m || !w->copy_mismatch.empty()) return;
	w->copies_checked++;
	int n = dbl_QSget_colcount(p), mr = dbl_QSget_rowcount(p); std::string &e = w->copy_mismatch;
	if (n != (int)m->cols.size() || mr != (int)m->rows.size()) { e = strf("dbl copy has %dx%d, model %dx%d", mr, n, (int)m->rows.size(), (int)m->cols.size()); return; }
	int os = 0; dbl_QSget_objsense(p, &os); if ((os == QS_MAX ? -1 : 1) != m->objsense) { e = "dbl copy: objective sense differs"; return; }
	std::vector<double> obj(n + 1), lo(n + 1), up(n + 1);
	if (n && (dbl_QSget_obj(p, obj.data()) || dbl_QSget_bounds(p, lo.data(), up.data()))) { e = "dbl copy: getters failed"; return; }
	for (int j = 0; j < n; j++) {
		if (!dbl_close(obj[j], m->cols[j].obj)) { e = strf("dbl copy: obj[%d]=%.17g vs %s", j, obj[j], qstr(m->cols[j].obj).c_str()); return; }
		if (!num_ok_dbl(lo[j], m->cols[j].lo)) { e = strf("dbl copy: lower[%d]=%.17g vs %s", j, lo[j], numstr(m->cols[j].lo).c_str()); return; }
		if (!num_ok_dbl(up[j], m->cols[j].up)) { e = strf("dbl copy: upper[%d]=%.17g vs %s", j, up[j], numstr(m->cols[j].up).c_str()); return; }
	}
	if (!mr) return;
	int *rc = 0, *rb = 0, *ri = 0; double *rv = 0, *rhs = 0, *rg = 0; char *sn = 0;
	if (dbl_QSget_ranged_rows(p, &rc, &rb, &ri, &rv, &rhs, &sn, &rg, 0)) { e = "dbl copy: QSget_ranged_rows failed"; return; }
	for (int i = 0; i < mr && e.empty(); i++) {
		const MRow &r = m->rows[i];
		if (sn[i] != r.sense) { e = strf("dbl copy: sense[%d]=%c vs %c", i, sn[i], r.sense); break; }
		if (!dbl_close(rhs[i], r.rhs)) { e = strf("dbl copy: rhs[%d]=%.17g vs %s", i, rhs[i], qstr(r.rhs).c_str()); break; }
		if (r.sense == 'R' && !dbl_close(rg[i], r.range)) { e = strf("dbl copy: range[%d]=%.17g vs %s", i, rg[i], qstr(r.range).c_str()); break; }
		if (rc[i] != (int)r.coef.size()) { e = strf("dbl copy: row %d has %d entries, model %d", i, rc[i], (int)r.coef.size()); break; }
		for (int k = rb[i]; k < rb[i] + rc[i]; k++) { auto it = r.coef.find(ri[k]); if (it == r.coef.end() || !dbl_close(rv[k], it->second)) { e = strf("dbl copy: coef(%d,%d)=%.17g differs from model", i, ri[k], rv[k]); break; } }
	}
	dbl_QSfree(rc); dbl_QSfree(rb); dbl_QSfree(ri); shim_dbl_free(rv); shim_dbl_free(rhs); shim_dbl_free(rg); dbl_QSfree(sn);
}
static void check_copy_mpf(mpf_QSdata *p) {
	World *w = world(); const LP *m = w->cur_model; if (!m || !w->copy_mismatch.empty()) return;
	w->copies_checked++;
	int n = mpf_QSget_colcount(p), mr = mpf_QSget_rowcount(p); std::string &e = w->copy_mismatch;
	if (n != (int)m->cols.size() || mr != (int)m->rows.size()) { e = strf("mpf copy has %dx%d, model %dx%d", mr, n, (int)m->rows.size(), (int)m->cols.size()); return; }
	int os = 0; mpf_QSget_objsense(p, &os); if ((os == QS_MAX ? -1 : 1) != m->objsense) { e = "mpf copy: objective sense differs"; return; }
	mpf_t *obj = shim_mpf_alloc(n ? n : 1), *lo = shim_mpf_alloc(n ? n : 1), *up = shim_mpf_alloc(n ? n : 1);
	if (n && (mpf_QSget_obj(p, obj) || mpf_QSget_bounds(p, lo, up))) e = "mpf copy: getters failed";
	for (int j = 0; j < n && e.empty(); j++) {
		if (!mpf_close(obj[j], m->cols[j].obj)) e = strf("mpf copy: obj[%d] vs %s", j, qstr(m->cols[j].obj).c_str());
		else if (!num_ok_mpf(lo[j], m->cols[j].lo)) e = strf("mpf copy: lower[%d] vs %s", j, numstr(m->cols[j].lo).c_str());
		else if (!num_ok_mpf(up[j], m->cols[j].up)) e = strf("mpf copy: upper[%d] vs %s", j, numstr(m->cols[j].up).c_str());
	}
	shim_mpf_free(obj); shim_mpf_free(lo); shim_mpf_free(up);
	if (!mr || !e.empty()) return;
	int *rc = 0, *rb = 0, *ri = 0; mpf_t *rv = 0, *rhs = 0, *rg = 0; char *sn = 0;
	if (mpf_QSget_ranged_rows(p, &rc, &rb, &ri, &rv, &rhs, &sn, &rg, 0)) { e = "mpf copy: QSget_ranged_rows failed"; return; }
	for (int i = 0; i < mr && e.empty(); i++) {
		const MRow &r = m->rows[i];
		if (sn[i] != r.sense) { e = strf("mpf copy: sense[%d]=%c vs %c", i, sn[i], r.sense); break; }
		if (!mpf_close(rhs[i], r.rhs)) { e = strf("mpf copy: rhs[%d] vs %s", i, qstr(r.rhs).c_str()); break; }
		if (r.sense == 'R' && !mpf_close(rg[i], r.range)) { e = strf("mpf copy: range[%d] vs %s", i, qstr(r.range).c_str()); break; }
		if (rc[i] != (int)r.coef.size()) { e = strf("mpf copy: row %d has %d entries, model %d", i, rc[i], (int)r.coef.size()); break; }
		for (int k = rb[i]; k < rb[i] + rc[i]; k++) { auto it = r.coef.find(ri[k]); if (it == r.coef.end() || !mpf_close(rv[k], it->second)) { e = strf("mpf copy: coef(%d,%d) differs from model", i, ri[k]); break; } }
	}
	mpf_QSfree(rc); mpf_QSfree(rb); mpf_QSfree(ri); shim_mpf_free(rv); shim_mpf_free(rhs); shim_mpf_free(rg); mpf_QSfree(sn);
}

// ------------------------------------------------------------------ helpers shared by both precisions
static QSbasis *make_basis(int n, int m) { QSbasis *b = (QSbasis *)calloc(1, sizeof(QSbasis)); b->nstruct = n; b->nrows = m; b->cstat = (char *)malloc(n ? n : 1); b->rstat = (char *)malloc(m ? m : 1); return b; }

template <class P> static QSbasis *slack_basis(P *p, int n, int m) {
	QSbasis *b = make_basis(n, m);
	for (int j = 0; j < n; j++) b->cstat[j] = QS_COL_BSTAT_LOWER;
	for (int i = 0; i < m; i++) b->rstat[i] = QS_ROW_BSTAT_BASIC;
	(void)p; return b;
}
// apply flt.basis to a basis in place (keeps the number of basic variables)
static void mutate_basis(QSbasis *b, const Fault &f) {
	std::string mode = fs(f, "mode", "swap"); long k = fi(f, "k", 0);
	int n = b->nstruct, m = b->nrows; if (n + m == 0) return;
	if (mode == "slack") { for (int j = 0; j < n; j++) if (b->cstat[j] == QS_COL_BSTAT_BASIC) b->cstat[j] = QS_COL_BSTAT_LOWER; for (int i = 0; i < m; i++) b->rstat[i] = QS_ROW_BSTAT_BASIC; return; }
	// swap: the (k mod nb)-th basic leaves, the (k' mod nn)-th non-basic enters
	std::vector<int> bas, non;
	for (int j = 0; j < n; j++) (b->cstat[j] == QS_COL_BSTAT_BASIC ? bas : non).push_back(j);
	for (int i = 0; i < m; i++) (b->rstat[i] == QS_ROW_BSTAT_BASIC ? bas : non).push_back(n + i);
	if (bas.empty() || non.empty()) return;
	int out = bas[(size_t)(k < 0 ? -k : k) % bas.size()], in = non[(size_t)((k < 0 ? -k : k) / 7) % non.size()];
	if (out < n) b->cstat[out] = QS_COL_BSTAT_LOWER; else b->rstat[out - n] = QS_ROW_BSTAT_LOWER;
	if (in < n) b->cstat[in] = QS_COL_BSTAT_BASIC; else b->rstat[in - n] = QS_ROW_BSTAT_BASIC;
}

static void begin_stage(int kind, unsigned prec) {
	World *w = world(); w->stage++; FloatStage s; s.kind = kind; s.prec = prec; w->stages.push_back(s);
}

// perturbation of the float copy before it is solved (flt.perturb): an honest solve of a nearby LP
static double perturb_factor(const Fault &f) { long e = fi(f, "exp", 20); if (e < 3) e = 3; if (e > 60) e = 60; return 1.0 + ldexp(1.0, -(int)e) * (fi(f, "neg", 0) ? -1 : 1); }

// ================================================================== double precision stage
extern "C" {

int sim_dbl_ILLeditor_solve(dbl_QSdata *p, int algo) {
	begin_stage(0, 53); World *w = world();
	check_copy_dbl(p);
	w->stages.back().warm = p->basis != 0;
	for (const Fault *f : stage_faults("flt.perturb")) {
		int n = dbl_QSget_colcount(p), m = dbl_QSget_rowcount(p); std::string what = fs(*f, "what", "rhs"); long idx = fi(*f, "idx", 0); double fac = perturb_factor(*f);
		if (what == "rhs" && m) { int i = (int)((idx % m + m) % m); std::vector<double> r(m); dbl_QSget_rhs(p, r.data()); double nv = r[i] == 0 ? (fac - 1.0) : r[i] * fac; dbl_QSchange_rhscoef(p, i, nv); fired("flt.perturb"); }
		else if (what == "obj" && n) { int j = (int)((idx % n + n) % n); std::vector<double> c(n); dbl_QSget_obj(p, c.data()); double nv = c[j] == 0 ? (fac - 1.0) : c[j] * fac; dbl_QSchange_objcoef(p, j, nv); fired("flt.perturb"); }
		else if (what == "coef" && n && m) { int i = (int)((idx % m + m) % m), j = (int)(((idx / 7) % n + n) % n); double c = 0; dbl_QSget_coef(p, i, j, &c); if (c != 0) { dbl_QSchange_coef(p, i, j, c * fac); fired("flt.perturb"); } }
	}
	int rv = dbl_ILLeditor_solve(p, algo);
	w->stages.back().real_rv = rv; { int st = 0; dbl_QSget_status(p, &st); w->stages.back().real_status = st; w->stages.back().told_status = st; }
	if (!stage_faults("flt.fail").empty()) { fired("flt.fail"); return 1; }
	if (rv && lie_status_for_stage()) return 0;   // a stage that will claim a status must look as if it ran
	return rv;
}
int sim_dbl_QSget_status(dbl_QSdata *p, int *status) {
	int rv = dbl_QSget_status(p, status);
	int lie = lie_status_for_stage();
	if (lie && !rv && *status != lie) { *status = lie; World *w = world(); if (!w->stages.empty() && w->stages.back().told_status != lie) { w->stages.back().told_status = lie; fired("flt.status"); } }
	return rv;
}
int sim_dbl_QSopt_primal(dbl_QSdata *p, int *status) {
	int lie = lie_status_for_stage();
	if (lie) { *status = lie; return 0; }
	return dbl_QSopt_primal(p, status);
}
int sim_dbl_QSget_itcnt(dbl_QSdata *p, int *a, int *b, int *c, int *d, int *tot) {
	int rv = dbl_QSget_itcnt(p, a, b, c, d, tot);
	if (tot && !stage_faults("flt.iter0").empty()) { *tot = 0; fired("flt.iter0"); }
	else if (tot && lie_status_for_stage() && *tot == 0) *tot = 1;
	return rv;
}
static void vec_fault_dbl(double *v, int n, const char *which) {
	for (const Fault *f : stage_faults("flt.vec")) { if (fs(*f, "which", "x") != which || n == 0) continue;
		std::string mode = fs(*f, "mode", "bump"); long idx = fi(*f, "idx", 0); int i = (int)((idx % n + n) % n);
		if (mode == "zero") for (int k = 0; k < n; k++) v[k] = 0; else if (mode == "neg") v[i] = -v[i] - (v[i] == 0 ? 1.0 : 0.0); else if (mode == "scale") for (int k = 0; k < n; k++) v[k] *= 1.0009765625;
		else if (mode == "one") v[i] = 1.0; else if (mode == "huge") v[i] = 1e30; else v[i] += ldexp(1.0, -(int)(5 + (idx % 40 + 40) % 40));
		fired("flt.vec"); }
}
int sim_dbl_QSget_x_array(dbl_QSdata *p, double *x) {
	int n = dbl_QSget_colcount(p); int rv = dbl_QSget_x_array(p, x);
	if (rv && lie_status_for_stage() == QS_LP_OPTIMAL) { for (int j = 0; j < n; j++) x[j] = 0; rv = 0; }
	if (!rv) vec_fault_dbl(x, n, "x");
	return rv;
}
int sim_dbl_QSget_pi_array(dbl_QSdata *p, double *pi) {
	int m = dbl_QSget_rowcount(p); int rv = dbl_QSget_pi_array(p, pi);
	if (rv && lie_status_for_stage() == QS_LP_OPTIMAL) { for (int i = 0; i < m; i++) pi[i] = 0; rv = 0; }
	if (!rv) vec_fault_dbl(pi, m, "pi");
	return rv;
}
int sim_dbl_QSget_infeas_array(dbl_QSdata *p, double *y) {
	int m = dbl_QSget_rowcount(p); int rv = dbl_QSget_infeas_array(p, y);
	if (rv && lie_status_for_stage() == QS_LP_INFEASIBLE) { for (int i = 0; i < m; i++) y[i] = 0; rv = 0; }
	if (!rv) vec_fault_dbl(y, m, "infeas");
	return rv;
}
QSbasis *sim_dbl_QSget_basis(dbl_QSdata *p) {
	QSbasis *b = dbl_QSget_basis(p);
	if (!b && lie_status_for_stage()) b = slack_basis(p, dbl_QSget_colcount(p), dbl_QSget_rowcount(p));
	if (b) for (const Fault *f : stage_faults("flt.basis")) { mutate_basis(b, *f); fired("flt.basis"); }
	return b;
}

// ================================================================== mpf stages
int sim_mpf_ILLeditor_solve(mpf_QSdata *p, int algo) {
	begin_stage(1, shim_precision()); World *w = world();
	// S1, coarse: on the simulated machine the high rungs of the ladder cost more time than the solve has left, so the stage
	// runs into its own time limit at the first look at the clock (deterministic: a function of the precision only)
	// (the stage is not run; exact.c is told TIME_LIMIT, which it treats like any other non-definitive stage status)
	if (w->ladder_cut > 0 && (int)shim_precision() > w->ladder_cut) { w->now += 1e6; w->ladder_cut_fired++; w->ladder_cut_in_op++; w->stages.back().cut = true; w->stages.back().real_status = w->stages.back().told_status = QS_LP_TIME_LIMIT; return 0; }
	check_copy_mpf(p);
	w->stages.back().warm = p->basis != 0;
	for (const Fault *f : stage_faults("flt.perturb")) {
		int n = mpf_QSget_colcount(p), m = mpf_QSget_rowcount(p); std::string what = fs(*f, "what", "rhs"); long idx = fi(*f, "idx", 0); double fac = perturb_factor(*f);
		mpf_t t; mpf_init(t);
		if (what == "rhs" && m) { int i = (int)((idx % m + m) % m); mpf_t *r = shim_mpf_alloc(m); mpf_QSget_rhs(p, r); if (mpf_sgn(r[i]) == 0) mpf_set_d(t, fac - 1.0); else { mpf_set_d(t, fac); mpf_mul(t, t, r[i]); } mpf_QSchange_rhscoef(p, i, t); shim_mpf_free(r); fired("flt.perturb"); }
		else if (what == "obj" && n) { int j = (int)((idx % n + n) % n); mpf_t *c = shim_mpf_alloc(n); mpf_QSget_obj(p, c); if (mpf_sgn(c[j]) == 0) mpf_set_d(t, fac - 1.0); else { mpf_set_d(t, fac); mpf_mul(t, t, c[j]); } mpf_QSchange_objcoef(p, j, t); shim_mpf_free(c); fired("flt.perturb"); }
		else if (what == "coef" && n && m) { int i = (int)((idx % m + m) % m), j = (int)(((idx / 7) % n + n) % n); mpf_t c; mpf_init(c); mpf_QSget_coef(p, i, j, &c); if (mpf_sgn(c) != 0) { mpf_set_d(t, fac); mpf_mul(t, t, c); mpf_QSchange_coef(p, i, j, t); fired("flt.perturb"); } mpf_clear(c); }
		mpf_clear(t);
	}
	int rv = mpf_ILLeditor_solve(p, algo);
	w->stages.back().real_rv = rv; { int st = 0; mpf_QSget_status(p, &st); w->stages.back().real_status = st; w->stages.back().told_status = st; }
	if (!stage_faults("flt.fail").empty()) { fired("flt.fail"); return 1; }
	if (rv && lie_status_for_stage()) return 0;
	return rv;
}
int sim_mpf_QSget_status(mpf_QSdata *p, int *status) {
	{ World *w = world(); if (!w->stages.empty() && w->stages.back().cut) { *status = QS_LP_TIME_LIMIT; return 0; } }
	int rv = mpf_QSget_status(p, status);
	int lie = lie_status_for_stage();
	if (lie && !rv && *status != lie) { *status = lie; World *w = world(); if (!w->stages.empty() && w->stages.back().told_status != lie) { w->stages.back().told_status = lie; fired("flt.status"); } }
	return rv;
}
int sim_mpf_QSopt_primal(mpf_QSdata *p, int *status) {
	int lie = lie_status_for_stage();
	if (lie) { *status = lie; return 0; }
	return mpf_QSopt_primal(p, status);
}
int sim_mpf_QSget_itcnt(mpf_QSdata *p, int *a, int *b, int *c, int *d, int *tot) {
	int rv = mpf_QSget_itcnt(p, a, b, c, d, tot);
	if (tot && !stage_faults("flt.iter0").empty()) { *tot = 0; fired("flt.iter0"); }
	else if (tot && lie_status_for_stage() && *tot == 0) *tot = 1;
	return rv;
}
static void vec_fault_mpf(mpf_t *v, int n, const char *which) {
	for (const Fault *f : stage_faults("flt.vec")) { if (fs(*f, "which", "x") != which || n == 0) continue;
		std::string mode = fs(*f, "mode", "bump"); long idx = fi(*f, "idx", 0); int i = (int)((idx % n + n) % n);
		if (mode == "zero") for (int k = 0; k < n; k++) mpf_set_ui(v[k], 0); else if (mode == "neg") { mpf_neg(v[i], v[i]); if (mpf_sgn(v[i]) == 0) mpf_set_si(v[i], -1); }
		else if (mode == "scale") { mpf_t s; mpf_init_set_d(s, 1.0009765625); for (int k = 0; k < n; k++) mpf_mul(v[k], v[k], s); mpf_clear(s); }
		else if (mode == "one") mpf_set_ui(v[i], 1); else if (mode == "huge") mpf_set_d(v[i], 1e30);
		else { mpf_t s; mpf_init_set_d(s, ldexp(1.0, -(int)(5 + (idx % 40 + 40) % 40))); mpf_add(v[i], v[i], s); mpf_clear(s); }
		fired("flt.vec"); }
}
int sim_mpf_QSget_x_array(mpf_QSdata *p, mpf_t *x) {
	int n = mpf_QSget_colcount(p); int rv = mpf_QSget_x_array(p, x);
	if (rv && lie_status_for_stage() == QS_LP_OPTIMAL) { for (int j = 0; j < n; j++) mpf_set_ui(x[j], 0); rv = 0; }
	if (!rv) vec_fault_mpf(x, n, "x");
	return rv;
}
int sim_mpf_QSget_pi_array(mpf_QSdata *p, mpf_t *pi) {
	int m = mpf_QSget_rowcount(p); int rv = mpf_QSget_pi_array(p, pi);
	if (rv && lie_status_for_stage() == QS_LP_OPTIMAL) { for (int i = 0; i < m; i++) mpf_set_ui(pi[i], 0); rv = 0; }
	if (!rv) vec_fault_mpf(pi, m, "pi");
	return rv;
}
int sim_mpf_QSget_infeas_array(mpf_QSdata *p, mpf_t *y) {
	int m = mpf_QSget_rowcount(p); int rv = mpf_QSget_infeas_array(p, y);
	if (rv && lie_status_for_stage() == QS_LP_INFEASIBLE) { for (int i = 0; i < m; i++) mpf_set_ui(y[i], 0); rv = 0; }
	if (!rv) vec_fault_mpf(y, m, "infeas");
	return rv;
}
QSbasis *sim_mpf_QSget_basis(mpf_QSdata *p) {
	QSbasis *b = mpf_QSget_basis(p);
	if (!b && lie_status_for_stage()) b = slack_basis(p, mpf_QSget_colcount(p), mpf_QSget_rowcount(p));
	if (b) for (const Fault *f : stage_faults("flt.basis")) { mutate_basis(b, *f); fired("flt.basis"); }
	return b;
}

}   // extern "C"
