#!/usr/bin/env python3
"""Sensitivity run: apply a change to a scratch worktree of /repo, rebuild qsim from it and run checks against it.

  sens.py <name> <patch.diff | revert:<commit>> <PROP>[,<PROP>...] [budget_s]
Nothing in /repo or /verif/evidence is touched; the scratch tree is removed afterwards.
"""
import os, subprocess, sys, shutil
name, change, props = sys.argv[1], sys.argv[2], sys.argv[3].split(",")
budget = sys.argv[4] if len(sys.argv) > 4 else ""   # empty: the quick check exactly as registered (fixed run count)
base = "/tmp/sens_" + name
shutil.rmtree(base, ignore_errors=True); os.makedirs(base)
wt = base + "/repo"
# the checks are taken from the last commit of /verif, not from the working files (which may be in the middle of an edit)
vdir = base + "/verif"; os.makedirs(vdir)
subprocess.run("git -C /verif archive HEAD | tar -x -C " + vdir, shell=True, check=True)
subprocess.run(["git", "-C", "/repo", "worktree", "add", "-q", "--detach", wt, "HEAD"], check=True)
try:
    if change.startswith("revert:"):
        r = subprocess.run(["git", "-C", wt, "revert", "--no-commit", change[7:]], capture_output=True, text=True)
    else:
        r = subprocess.run(["git", "-C", wt, "apply", os.path.abspath(change)], capture_output=True, text=True)
    if r.returncode:
        print("SENS %s: change does not apply: %s" % (name, (r.stderr or r.stdout)[:300])); sys.exit(3)
    env = dict(os.environ, VERIF_REPO=wt, VERIF_BUILD=base + "/build", VERIF_OUT=base + "/out", VERIF_SHRINK_BUDGET="60", VERIF_JOBS=os.environ.get("VERIF_JOBS", "8"))
    if budget:
        env["VERIF_BUDGET_S"] = budget; env["VERIF_MAXRUNS"] = "0"
    tier = os.environ.get("SENS_TIER", "quick")
    for prop in props:
        r = subprocess.run([vdir + "/check", prop, tier], capture_output=True, text=True, env=env)
        lines = [l for l in r.stdout.split("\n") if l.startswith(("VIOLATION", "  class=", "KNOWN", "HARNESS", prop + " "))]
        print("SENS %s %s exit=%d" % (name, prop, r.returncode))
        for l in lines[:8] + [l for l in lines[8:] if l.startswith("HARNESS")][:4]:
            print("   " + l[:300])
        if r.returncode == 1 and os.environ.get("SENS_KEEP"):   # keep the shrunk replay plans (tools/revert_sweep.py turns them into regression plans)
            rd0 = base + "/out/replays/" + prop
            if os.path.isdir(rd0):
                os.makedirs(os.environ["SENS_KEEP"], exist_ok=True)
                for f in sorted(os.listdir(rd0)):
                    shutil.copy2(os.path.join(rd0, f), os.path.join(os.environ["SENS_KEEP"], "%s__%s__%s" % (name, prop, f)))
        if r.returncode == 1:
            rd = base + "/out/replays/" + prop
            if os.path.isdir(rd):
                for f in sorted(os.listdir(rd))[:2]:
                    txt = [l for l in open(os.path.join(rd, f)).read().split("\n") if not l.startswith("trace")]
                    print("   --- " + f); print("\n".join("   " + l[:200] for l in txt[:25]))
finally:
    subprocess.run(["git", "-C", "/repo", "worktree", "remove", "--force", wt])
    shutil.rmtree(base, ignore_errors=True)
