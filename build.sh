#!/bin/bash
# Rebuild qsim-<flavour> from /repo's current working tree.  usage: build.sh [asan|asan0|plain|all] ...
set -e
cd "$(dirname "$0")"
REPO=${VERIF_REPO:-/repo}
OUT=${VERIF_BUILD:-/verif/build}
mkdir -p "$OUT"
FLAVOURS="$*"; [ -z "$FLAVOURS" ] && FLAVOURS="asan"
[ "$FLAVOURS" = "all" ] && FLAVOURS="asan asan0 plain"
(
  flock 9
  python3 sim/mkgen.py "$REPO" "$OUT" >/dev/null
  for f in $FLAVOURS; do
    if ! make -s -f sim/Makefile FLAVOUR=$f OUT="$OUT" -j"${VERIF_JOBS:-16}" all >"$OUT/build-$f.log" 2>&1; then
      echo "build.sh: build of flavour $f failed, see $OUT/build-$f.log" >&2
      tail -30 "$OUT/build-$f.log" >&2
      exit 2
    fi
  done
) 9>"$OUT/.lock"
